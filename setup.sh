#!/bin/sh
# Offline set-up: installs the property-testing library (and the json-schema
# validator used to self-validate evidence) into /verif/.deps.  --no-deps and
# --target so /venv's numpy 1.26 / scipy 1.12 are never touched.
set -e
cd "$(dirname "$0")"
mkdir -p .deps evidence
PIP_NO_INDEX=1 /venv/bin/pip install --quiet --no-index --find-links /opt/veriftools/wheels \
    --no-deps --upgrade --target .deps \
    hypothesis attrs sortedcontainers jsonschema jsonschema_specifications referencing rpds_py typing_extensions \
    >/dev/null 2>&1 || {
  # hypothesis already importable from /venv is enough to run the checks
  /venv/bin/python -c "import hypothesis" || exit 1
}
PYTHONPATH=.deps /venv/bin/python -c "import hypothesis, sortedcontainers, attr; print('setup ok: hypothesis', hypothesis.__version__)"
