#!/usr/bin/env python3
"""Confirm and file seeded changes produced by independent sub-agents.

usage: tools/seeded.py <ID> [k ...]     (reads /tmp/seeded_out/<ID>/patch<k>.diff, demo<k>.py, notes.md)

For each change, in a scratch worktree of /repo at its current HEAD (outside /repo and /verif):
  1. clean tree: demo must exit 0
  2. patch applied: demo must exit non-zero
  3. patch applied: the repository's test suite must still pass
  4. patch applied: run the property's quick check against the worktree (VERIF_REPO) and record whether it is caught
and file it under /verif/seeded/<ID>-<k>/ (patch.diff, demo.py, meta.json).  The worktree is removed afterwards.
"""
import json
import os
import re
import shutil
import subprocess
import sys
import time

ROOT = os.path.dirname(os.path.dirname(os.path.abspath(__file__)))
ENV = dict(os.environ, OMP_NUM_THREADS="1", OPENBLAS_NUM_THREADS="1", MKL_NUM_THREADS="1", MPLBACKEND="Agg")


def sh(cmd, cwd=None, env=None, timeout=3600):
    r = subprocess.run(cmd, shell=True, cwd=cwd, env=env or ENV, capture_output=True, text=True, timeout=timeout)
    return r.returncode, (r.stdout + r.stderr)


def recheck(ids):
    """re-run the quick check against already filed seeded changes (after strengthening a check) and update meta.json"""
    for sid in ids:
        dst = os.path.join(ROOT, "seeded", sid)
        meta = json.load(open(os.path.join(dst, "meta.json")))
        pid = meta["property"]
        wt = f"/tmp/wtr_{sid}"
        sh(f"git -C /repo worktree remove --force {wt}")
        rc, out = sh(f"git -C /repo worktree add -q --detach {wt} HEAD")
        assert rc == 0, out
        try:
            rca, oa = sh(f"git apply {dst}/patch.diff", cwd=wt)
            if rca != 0:
                print(f"{sid}: patch does not apply to HEAD: {oa[:200]}")
                continue
            t0 = time.time()
            rcc, oc = sh(f"{ROOT}/check {pid} --tier quick --no-evidence", cwd=ROOT, env=dict(ENV, VERIF_REPO=wt, VERIF_VIOL_DIR=f"/tmp/viol_recheck_{sid}"), timeout=7200)
            viol = [l for l in oc.splitlines() if l.startswith("violation in")][:2]
            head = sh("git -C /verif rev-parse --short HEAD")[1].strip()
            meta["ran"].append({"cmd": f"recheck after strengthening (verif {head}): VERIF_REPO=<worktree> ./check {pid} --tier quick", "exit": rcc,
                                "wall_s": round(time.time() - t0, 1), "first_violations": viol})
            if os.environ.get("RECHECK_NO_WRITE") != "1":     # (robustness runs at other seeds do not touch the filed record)
                meta["caught_by_quick_check"] = rcc == 1
                json.dump(meta, open(os.path.join(dst, "meta.json"), "w"), indent=1)
            print(f"{sid}: recheck exit={rcc} {'CAUGHT' if rcc == 1 else 'MISSED'} {viol[:1]}", flush=True)
        finally:
            sh(f"git -C /repo worktree remove --force {wt}")


def main():
    if sys.argv[1] == "--recheck":
        return recheck(sys.argv[2:])
    arg = sys.argv[1].upper()
    # "C06" = first round (/tmp/seeded_out/C06, filed as C06-1..3); "C06R2" = second round (/tmp/seeded_out/C06r2, filed as C06-4..6)
    m = re.match(r"(C\d+)(?:R(\d+))?$", arg)
    pid, rnd = m.group(1), int(m.group(2) or 1)
    src = f"/tmp/seeded_out/{pid}" + (f"r{rnd}" if rnd > 1 else "")
    off = 3 * (rnd - 1)
    ks = sys.argv[2:] or sorted(re.findall(r"patch(\d+)\.diff", " ".join(os.listdir(src))))
    skip_tests = os.environ.get("SEEDED_SKIP_TESTS") == "1"
    wt = f"/tmp/wtv_{pid}_{rnd}"
    sh(f"git -C /repo worktree remove --force {wt}")
    rc, out = sh(f"git -C /repo worktree add -q --detach {wt} HEAD")
    assert rc == 0, out
    head = sh("git -C /repo rev-parse --short HEAD")[1].strip()
    try:
        for k in ks:
            patch, demo = f"{src}/patch{k}.diff", f"{src}/demo{k}.py"
            if not (os.path.exists(patch) and os.path.exists(demo)):
                print(f"{pid}-{k}: missing files")
                continue
            fid = f"{pid}-{int(k) + off}"
            meta = {"property": pid, "id": fid, "round": rnd, "base_commit": head, "ran": []}
            sh("git checkout -q -- . && git clean -fdq", cwd=wt)
            rc0, o0 = sh(f"PYTHONPATH={wt} /venv/bin/python {demo}", cwd=wt, timeout=1800)
            meta["ran"].append({"cmd": "demo on clean tree", "exit": rc0})
            rca, oa = sh(f"git apply {patch}", cwd=wt)
            if rca != 0:
                print(f"{pid}-{k}: patch does not apply to HEAD: {oa[:300]}")
                continue
            rc1, o1 = sh(f"PYTHONPATH={wt} /venv/bin/python {demo}", cwd=wt, timeout=1800)
            meta["ran"].append({"cmd": "demo with change", "exit": rc1, "tail": o1.strip().splitlines()[-1:] })
            if skip_tests:
                tests_ok, tsum = None, "skipped"
            else:
                rct, ot = sh("/venv/bin/python -m pytest -q -p no:cacheprovider -x 2>&1 | tail -3", cwd=wt, timeout=3600)
                tsum = ot.strip().splitlines()[-1] if ot.strip() else ""
                tests_ok = bool(re.search(r"\b\d+ passed", tsum)) and not re.search(r"\b\d+ (failed|error)", tsum)
            meta["ran"].append({"cmd": "pytest -q -x (existing suite, change applied)", "summary": tsum})
            env = dict(ENV, VERIF_REPO=wt, VERIF_VIOL_DIR=f"/tmp/viol_seeded_{pid}_{rnd}")
            t0 = time.time()
            rcc, oc = sh(f"{ROOT}/check {pid} --tier quick --no-evidence", cwd=ROOT, env=env, timeout=7200)
            viol = [l for l in oc.splitlines() if l.startswith("violation in")][:2]
            meta["ran"].append({"cmd": f"VERIF_REPO=<worktree> ./check {pid} --tier quick", "exit": rcc, "wall_s": round(time.time() - t0, 1),
                                "first_violations": viol})
            meta["confirmed"] = bool(rc0 == 0 and rc1 != 0 and (tests_ok or tests_ok is None))
            meta["tests_pass_with_change"] = tests_ok
            meta["caught_by_quick_check"] = rcc == 1
            notes = open(f"{src}/notes.md").read() if os.path.exists(f"{src}/notes.md") else ""
            meta["needs_to_manifest"] = _section(notes, k)
            dst = os.path.join(ROOT, "seeded", fid)
            if meta["confirmed"]:
                os.makedirs(dst, exist_ok=True)
                shutil.copy(patch, os.path.join(dst, "patch.diff"))
                shutil.copy(demo, os.path.join(dst, "demo.py"))
                json.dump(meta, open(os.path.join(dst, "meta.json"), "w"), indent=1)
            print(f"{fid}: clean_demo={rc0} changed_demo={rc1} tests={tsum!r} check_exit={rcc} "
                  f"{'CAUGHT' if rcc == 1 else 'MISSED'} confirmed={meta['confirmed']} {viol[:1]}", flush=True)
            sh("git checkout -q -- . && git clean -fdq", cwd=wt)
    finally:
        sh(f"git -C /repo worktree remove --force {wt}")


def _section(notes, k):
    """the part of notes.md that talks about change k (best effort)"""
    parts = re.split(r"\n(?=#+ )", notes)
    hit = [p for p in parts if re.search(rf"\b(change|patch|defect)\s*#?\s*{k}\b", p, re.I)]
    txt = (hit[0] if hit else notes)[:1500]
    return txt


if __name__ == "__main__":
    main()
