#!/usr/bin/env python3
"""Development aid (not a registered check): automatic mutation campaign.

    tools/automutate.py C20 [--n 30] [--seed 1] [--jobs 2] [--tier quick]

1. runs the property's quick check once on the unchanged tree with VERIF_LINECOV to learn which lines of the
   property's anchor files the check executes;
2. enumerates AST-level mutation sites on those lines (arithmetic/comparison/boolean operator swaps, numeric constants,
   dropped `.T`, dropped unary minus, dropped `not`, flipped boolean keyword constants);
3. samples n of them (seeded), applies each to a scratch copy of the package outside /repo and /verif, runs the
   quick check with VERIF_REPO pointing at the copy, and records exit 1 (killed) / 0 (survived) / 2 (harness error);
4. appends one JSON line per mutant to /verif/tools/automutate_results/<ID>.jsonl and prints the survivors.

Survivors are candidates only: many are equivalent mutants or lie outside what the property states; each was triaged by hand
(DESIGN.md section 8).
"""
import argparse
import ast
import glob
import json
import os
import random
import shutil
import subprocess
import sys
import tempfile
import time
from concurrent.futures import ThreadPoolExecutor

ROOT = os.path.dirname(os.path.dirname(os.path.abspath(__file__)))
REPO = "/repo"

SWAP_BIN = {ast.Add: "-", ast.Sub: "+", ast.Mult: "/", ast.Div: "*"}
SWAP_CMP = {ast.Lt: "<=", ast.LtE: "<", ast.Gt: ">=", ast.GtE: ">", ast.Eq: "!=", ast.NotEq: "=="}
TOK_BIN = {ast.Add: "+", ast.Sub: "-", ast.Mult: "*", ast.Div: "/"}
TOK_CMP = {ast.Lt: "<", ast.LtE: "<=", ast.Gt: ">", ast.GtE: ">=", ast.Eq: "==", ast.NotEq: "!="}


def anchors(pid):
    for l in open(os.path.join(ROOT, "properties.jsonl")):
        p = json.loads(l)
        if p["id"] == pid:
            return p["anchors"]["files"]
    raise SystemExit("unknown property")


def offs(lines, lineno, col):
    """absolute offset in the source string from (1-based line, utf8 col)"""
    return sum(len(l) for l in lines[:lineno - 1]) + len(lines[lineno - 1].encode()[:col].decode())


def sites(src):
    """yield (lineno, description, start, end, replacement)"""
    tree = ast.parse(src)
    lines = src.splitlines(keepends=True)
    doc_nodes = set()
    for node in ast.walk(tree):
        if isinstance(node, (ast.FunctionDef, ast.ClassDef, ast.Module, ast.AsyncFunctionDef)):
            b = node.body
            if b and isinstance(b[0], ast.Expr) and isinstance(getattr(b[0], "value", None), ast.Constant) and isinstance(b[0].value.value, str):
                doc_nodes.add(id(b[0].value))
    skip_funcs = ("__repr__", "__str__", "plot", "_plot", "info", "_print")
    out = []

    def visit(node, fname):
        if isinstance(node, (ast.FunctionDef, ast.AsyncFunctionDef)):
            fname = node.name
            if fname.startswith(skip_funcs) or "plot" in fname:
                return
        if isinstance(node, ast.Raise) or isinstance(node, ast.Assert):
            return
        if isinstance(node, ast.BinOp) and type(node.op) in SWAP_BIN:
            a = offs(lines, node.left.end_lineno, node.left.end_col_offset)
            b = offs(lines, node.right.lineno, node.right.col_offset)
            seg = src[a:b]
            tok = TOK_BIN[type(node.op)]
            k = seg.find(tok)
            # strings concatenation / formatting: skip if either side is a string constant
            strish = any(isinstance(x, ast.Constant) and isinstance(x.value, str) for x in (node.left, node.right)) or \
                any(isinstance(x, ast.JoinedStr) for x in (node.left, node.right))
            if k >= 0 and not strish and "\n" not in seg[:k] and seg[k:k + 2] != "**":
                out.append((node.left.end_lineno, f"{tok} -> {SWAP_BIN[type(node.op)]}", a + k, a + k + len(tok), SWAP_BIN[type(node.op)]))
        if isinstance(node, ast.Compare) and len(node.ops) == 1 and type(node.ops[0]) in SWAP_CMP:
            a = offs(lines, node.left.end_lineno, node.left.end_col_offset)
            b = offs(lines, node.comparators[0].lineno, node.comparators[0].col_offset)
            seg = src[a:b]
            tok = TOK_CMP[type(node.ops[0])]
            k = seg.find(tok)
            if k >= 0:
                out.append((node.left.end_lineno, f"{tok} -> {SWAP_CMP[type(node.ops[0])]}", a + k, a + k + len(tok), SWAP_CMP[type(node.ops[0])]))
        if isinstance(node, ast.BoolOp):
            tok, rep = ("and", "or") if isinstance(node.op, ast.And) else ("or", "and")
            a = offs(lines, node.values[0].end_lineno, node.values[0].end_col_offset)
            b = offs(lines, node.values[1].lineno, node.values[1].col_offset)
            seg = src[a:b]
            k = seg.find(tok)
            if k >= 0:
                out.append((node.values[0].end_lineno, f"{tok} -> {rep}", a + k, a + k + len(tok), rep))
        if isinstance(node, ast.Constant) and id(node) not in doc_nodes and type(node.value) in (int, float) and not isinstance(node.value, bool):
            a = offs(lines, node.lineno, node.col_offset)
            b = offs(lines, node.end_lineno, node.end_col_offset)
            v = node.value
            rep = {0: "1", 1: "2", 2: "1", -1: "-2"}.get(v) if isinstance(v, int) else None
            if rep is None:
                rep = repr(v * 2) if v != 0 else "1.0"
            out.append((node.lineno, f"const {src[a:b]} -> {rep}", a, b, rep))
        if isinstance(node, ast.Constant) and isinstance(node.value, bool):
            a = offs(lines, node.lineno, node.col_offset)
            b = offs(lines, node.end_lineno, node.end_col_offset)
            out.append((node.lineno, f"{node.value} -> {not node.value}", a, b, repr(not node.value)))
        if isinstance(node, ast.Attribute) and node.attr == "T" and isinstance(node.ctx, ast.Load):
            a = offs(lines, node.value.end_lineno, node.value.end_col_offset)
            b = offs(lines, node.end_lineno, node.end_col_offset)
            out.append((node.end_lineno, "drop .T", a, b, ""))
        if isinstance(node, ast.UnaryOp) and isinstance(node.op, ast.USub) and not isinstance(node.operand, ast.Constant):
            a = offs(lines, node.lineno, node.col_offset)
            out.append((node.lineno, "drop unary -", a, a + 1, ""))
        if isinstance(node, ast.UnaryOp) and isinstance(node.op, ast.Not):
            a = offs(lines, node.lineno, node.col_offset)
            b = offs(lines, node.operand.lineno, node.operand.col_offset)
            out.append((node.lineno, "drop not", a, b, ""))
        for ch in ast.iter_child_nodes(node):
            visit(ch, fname)

    visit(tree, "")
    return out


def run_check(pid, repo, tier, extra_env=None, timeout=3600):
    env = dict(os.environ, VERIF_REPO=repo, VERIF_VIOL_DIR=os.path.join(repo if repo != REPO else tempfile.gettempdir(), "_viol"))
    env.update(extra_env or {})
    try:
        r = subprocess.run([os.path.join(ROOT, "check"), pid, "--tier", tier, "--no-evidence"], cwd=ROOT, env=env,
                           capture_output=True, text=True, timeout=timeout)
    except subprocess.TimeoutExpired:
        return 3, "timeout"
    lines = [l for l in r.stdout.splitlines() if l.startswith("violation in") or l.startswith("HARNESS") or "harness-error" in l]
    return r.returncode, " / ".join(lines[:2])[:300]


def main():
    ap = argparse.ArgumentParser()
    ap.add_argument("pid")
    ap.add_argument("--n", type=int, default=30)
    ap.add_argument("--seed", type=int, default=1)
    ap.add_argument("--jobs", type=int, default=2)
    ap.add_argument("--tier", default="quick")
    ap.add_argument("--files", default="")
    a = ap.parse_args()
    pid = a.pid.upper()
    files = [f for f in (a.files.split(",") if a.files else anchors(pid)) if f.endswith(".py")]
    outdir = os.path.join(ROOT, "tools", "automutate_results")
    os.makedirs(outdir, exist_ok=True)
    work = tempfile.mkdtemp(prefix=f"am_{pid}_", dir="/tmp")
    try:
        # 1. coverage on the unchanged tree
        cov = os.path.join(work, "cov")
        rc, msg = run_check(pid, REPO, a.tier, {"VERIF_LINECOV": cov})
        if rc != 0:
            raise SystemExit(f"check not quiet on the unchanged tree: exit {rc} {msg}")
        hit = set()
        for f in glob.glob(os.path.join(cov, "*.json")):
            hit |= {tuple(x) for x in json.load(open(f))}
        # 2. sites
        allsites = []
        for f in files:
            src = open(os.path.join(REPO, f), newline="").read()
            for (ln, desc, s, e, rep) in sites(src):
                if (f, ln) in hit:
                    allsites.append((f, ln, desc, s, e, rep))
        rnd = random.Random(a.seed)
        rnd.shuffle(allsites)
        done = set()
        resfile = os.path.join(outdir, f"{pid}.jsonl")
        if os.path.exists(resfile):
            for l in open(resfile):
                r = json.loads(l)
                done.add((r["file"], r["line"], r["mutation"]))
        chosen = [s for s in allsites if (s[0], s[1], s[2]) not in done][:a.n]
        print(f"{pid}: {len(hit)} executed lines, {len(allsites)} mutation sites on executed lines of {len(files)} anchor files, running {len(chosen)}", flush=True)
        # 3. scratch copies (one per job)
        copies = []
        for j in range(a.jobs):
            d = os.path.join(work, f"copy{j}")
            os.makedirs(d)
            shutil.copytree(os.path.join(REPO, "cuqi"), os.path.join(d, "cuqi"), ignore=shutil.ignore_patterns("__pycache__"))
            copies.append(d)
        free = list(copies)

        def one(site):
            f, ln, desc, s, e, rep = site
            d = free.pop()
            try:
                orig = open(os.path.join(REPO, f), newline="").read()
                mut = orig[:s] + rep + orig[e:]
                try:
                    compile(mut, f, "exec")
                except SyntaxError:
                    return None
                with open(os.path.join(d, f), "w", newline="") as fh:
                    fh.write(mut)
                t0 = time.time()
                rc, msg = run_check(pid, d, a.tier)
                with open(os.path.join(d, f), "w", newline="") as fh:
                    fh.write(orig)
                line_txt = mut.splitlines()[ln - 1].strip()[:160]
                res = {"property": pid, "file": f, "line": ln, "mutation": desc, "mutated_line": line_txt, "exit": rc,
                       "result": {0: "survived", 1: "killed", 2: "harness-error", 3: "timeout"}.get(rc, str(rc)), "first": msg,
                       "wall_s": round(time.time() - t0, 1)}
                with open(resfile, "a") as fh:
                    fh.write(json.dumps(res) + "\n")
                print(f"  {res['result']:14s} {f}:{ln} [{desc}] {line_txt[:90]}", flush=True)
                return res
            finally:
                free.append(d)

        with ThreadPoolExecutor(a.jobs) as ex:
            results = [r for r in ex.map(one, chosen) if r]
        k = sum(r["exit"] == 1 for r in results)
        print(f"{pid}: killed {k}/{len(results)}; survivors:")
        for r in results:
            if r["exit"] != 1:
                print(f"   {r['result']} {r['file']}:{r['line']} [{r['mutation']}] {r['mutated_line']}")
    finally:
        shutil.rmtree(work, ignore_errors=True)


if __name__ == "__main__":
    main()
