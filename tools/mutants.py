#!/usr/bin/env python3
"""Sensitivity smoke test (development aid, not a registered check).

usage: tools/mutants.py [ID ...]      runs every mutant listed for the given properties (default: all)

Each mutant is (property, file, old, new).  The repo's cuqi package is copied to a scratch dir
outside /repo and /verif, the replacement applied, the property's quick check run with VERIF_REPO
pointing at the copy; exit 1 (VIOLATION) is expected.  The scratch copy is removed afterwards.
"""
import os
import shutil
import subprocess
import sys
import tempfile

ROOT = os.path.dirname(os.path.dirname(os.path.abspath(__file__)))
REPO = os.environ.get("VERIF_REPO", "/repo")

MUTANTS = [
    # C20
    ("C20", "cuqi/operator/_operator.py", "Ds = kron(I, Dmat)\n            Dt = kron(Dmat, I)\n            self._matrix = vstack([Ds, Dt])\n        \nclass Second",
     "Ds = kron(Dmat, I)\n            Dt = kron(Dmat, I)\n            self._matrix = vstack([Ds, Dt])\n        \nclass Second"),
    ("C20", "cuqi/operator/_operator.py", "self._matrix = (self._diff_op.T @ self._diff_op).tocsc()", "self._matrix = (self._diff_op @ self._diff_op.T).tocsc()"),
    ("C20", "cuqi/distribution/_lmrf.py", "return len(Dx)*(-(np.log(2)+np.log(self.scale)))", "return self.dim*(-(np.log(2)+np.log(self.scale)))"),
    ("C20", "cuqi/distribution/_gmrf.py", "const = 0.5*(self._rank*(np.log(self.prec)-np.log(2*np.pi)) + self._logdet)", "const = 0.5*(self.dim*(np.log(self.prec)-np.log(2*np.pi)) + self._logdet)"),
    # C06
    ("C06", "cuqi/experimental/mcmc/_rto.py", "        self.b_tild = np.hstack([L@likelihood.data for (L, likelihood) in zip(L1, self.likelihoods)]+ [L2mu]) ", "        self.b_tild = np.hstack([L@likelihood.data for (L, likelihood) in zip(L1, self.likelihoods)]+ [0*L2mu]) "),
    ("C06", "cuqi/experimental/mcmc/_rto.py", "                        out1 += likelihood.model.adjoint(likelihood.distribution.sqrtprec.T@x[idx_start:idx_end])", "                        out1 += likelihood.model.adjoint(likelihood.distribution.sqrtprec@x[idx_start:idx_end])"),
    ("C06", "cuqi/distribution/_gaussian.py", "        return (self.sqrtprec@mean).flatten()", "        return (self.sqrtprec.T@self.sqrtprec@mean).flatten()"),
    ("C06", "cuqi/sampler/_rto.py", "            y = self.b_tild + np.random.randn(len(self.b_tild))\n            sim = CGLS(self.M, y, samples[:, s], self.maxit, self.tol, self.shift)", "            y = self.b_tild + np.hstack([np.random.randn(len(self.b_tild)-self.n), np.zeros(self.n)])\n            sim = CGLS(self.M, y, samples[:, s], self.maxit, self.tol, self.shift)"),
    ("C06", "cuqi/experimental/mcmc/_laplace_approximation.py", "            dd =  1/np.sqrt((D @ x_k)**2 + self.beta*np.ones(n))", "            dd =  1/np.sqrt((D @ x_k)**2 + self.beta**2*np.ones(n))"),
    ("C06", "cuqi/sampler/_laplace_approximation.py", "                out2 = np.sqrt(1/self.target.prior.scale)*(self._L2 @ x)", "                out2 = (1/self.target.prior.scale)*(self._L2 @ x)"),
    # C07
    ("C07", "cuqi/model/_model.py", "transpose = LinearModel(self.adjoint,self.forward,self.domain_geometry,self.range_geometry)", "transpose = LinearModel(self.adjoint,self.forward,self.range_geometry,self.domain_geometry)"),
    ("C07", "cuqi/testproblem/_testproblem.py", "    P = np.flipud(np.fliplr(P)) # Flip PSF", "    P = np.flipud(P) # Flip PSF"),
    ("C07", "cuqi/model/_model.py", "mat = hstack((mat,col_vec[:,None])) #mat[:,i] = self.forward(e)", "mat = hstack((col_vec[:,None],mat)) #mat[:,i] = self.forward(e)"),
    # C13
    ("C13", "cuqi/geometry/_geometry.py", "return funvals.ravel(order=self.order)", "return funvals.ravel()"),
    ("C13", "cuqi/geometry/_geometry.py", "p = self.coefs_inverse@p_temp*self.normalizer/(2*self.fun_dim)", "p = self.coefs_inverse@p_temp*self.normalizer/(2*self.par_dim)"),
    ("C13", "cuqi/geometry/_geometry.py", "interval_indices, = np.where((self.grid>start)&(self.grid<=end))", "interval_indices, = np.where((self.grid>=start)&(self.grid<=end))"),
    # C19
    ("C19", "cuqi/samples/_samples.py", "new_samples.samples = self.samples[...,Nb::Nt]", "new_samples.samples = self.samples[...,Nb+1::Nt]"),
    ("C19", "cuqi/samples/_samples.py", "return self._compute_numpy_stats(np.var, axis=-1)", "return self._compute_numpy_stats(np.var, axis=-1, ddof=1)"),
    ("C19", "cuqi/samples/_samples.py", "datadict =  dict(zip(variables,self.samples[variable_indices,:]))", "datadict =  dict(zip(variables,self.samples[variable_indices,:][::-1]))"),
    # C14
    ("C14", "cuqi/experimental/mcmc/_sampler.py", "            self._call_callback(self.current_point, len(self._samples)-1)\n                \n        return self", "            self._call_callback(self.current_point, idx)\n                \n        return self"),
    ("C14", "cuqi/experimental/mcmc/_langevin_algorithm.py", "    _STATE_KEYS = Sampler._STATE_KEYS.union({'current_target_logd', 'scale', 'current_target_grad'})", "    _STATE_KEYS = Sampler._STATE_KEYS.union({'current_target_logd', 'scale'})"),
    ("C14", "cuqi/sampler/_mh.py", "        samples = samples[:, Nb:]\n        target_eval = target_eval[Nb:]\n        accave = acc[Nb:].mean()   \n        print('\\nAverage acceptance rate:', accave, '\\n')", "        samples = samples[:, Nb+1:] if Nb > 0 else samples\n        target_eval = target_eval[Nb:]\n        accave = acc[Nb:].mean()   \n        print('\\nAverage acceptance rate:', accave, '\\n')"),
    ("C14", "cuqi/experimental/mcmc/_pcn.py", "    _STATE_KEYS = Sampler._STATE_KEYS.union({'scale', 'current_likelihood_logd', 'lambd'})", "    _STATE_KEYS = Sampler._STATE_KEYS.union({'scale', 'lambd'})"),
    ("C14", "cuqi/experimental/mcmc/_gibbs.py", "            self.samples[par_name].append(self.current_samples[par_name])", "            self.samples[par_name].insert(max(len(self.samples[par_name])-1, 0), self.current_samples[par_name])"),
    # C15
    ("C15", "cuqi/problem/_problem.py", "            x_MAP = x0 + Cx@(A.T@np.linalg.solve(sysm,rhs))", "            x_MAP = Cx@(A.T@np.linalg.solve(sysm,rhs))"),
    ("C15", "cuqi/problem/_problem.py", "            sysm = A@Cx@A.T+Ce", "            sysm = A@Cx@A.T"),
    ("C15", "cuqi/problem/_problem.py", "        L = np.linalg.cholesky(C)\n", "        L = np.linalg.cholesky(np.linalg.inv(C))\n"),
    ("C15", "cuqi/problem/_problem.py", "            def gradfunc(x): return -density.gradient(x)", "            def gradfunc(x): return density.gradient(x)"),
    # C16
    ("C16", "cuqi/solver/_solver.py", "                s = self.A.T @ r - self.shift*x     \n", "                s = self.A.T @ r     \n"),
    ("C16", "cuqi/solver/_solver.py", "return np.multiply(np.sign(x), np.maximum(np.abs(x)-gamma, 0))", "return np.multiply(np.sign(x), np.abs(x)-gamma)"),
    ("C16", "cuqi/solver/_solver.py", "        super().__init__(nfunc,x0,ngradfunc,method,**kwargs)", "        super().__init__(nfunc,x0,gradfunc,method,**kwargs)"),
    ("C16", "cuqi/solver/_solver.py", "        upper = np.ones_like(x)", "        upper = np.ones_like(x)*2"),
    # C01
    ("C01", "cuqi/density/_density.py", "        return self._logd(*args) + self._constant", "        return self._logd(*args)"),
    ("C01", "cuqi/distribution/_joint_distribution.py", "            return self._add_constants_to_density(Posterior(self._likelihoods[0], self._distributions[0]))", "            return Posterior(self._likelihoods[0], self._distributions[0])"),
    ("C01", "cuqi/distribution/_joint_distribution.py", "        inputs = np.split(stacked_input, split_indices[:-1])", "        inputs = np.split(stacked_input, split_indices[:-1])[::-1]"),
    ("C01", "cuqi/distribution/_joint_distribution.py", "            logd_kwargs = {key:value for (key,value) in kwargs.items() if key in density.get_parameter_names()}\n            logd += density.logd(**logd_kwargs)", "            logd_kwargs = {key:value for (key,value) in kwargs.items() if key in density.get_parameter_names()}\n            logd += density.logd(**logd_kwargs) if len(logd_kwargs) > 0 else 0"),
    ("C01", "cuqi/density/_density.py", "            if set(par_names) != set(kwargs.keys()):", "            if not set(par_names).issubset(set(kwargs.keys())):"),
    ("C01", "cuqi/distribution/_distribution.py", "                    func = partial(var_val, **var_args)\n                    setattr(new_dist, var_key, func)", "                    func = partial(var_val, **var_args)\n                    setattr(self, var_key, func)"),
    # C02
    ("C02", "cuqi/experimental/mcmc/_langevin_algorithm.py", "        log_alpha = min(0, log_target_ratio + log_prop_ratio)", "        log_alpha = min(0, log_target_ratio)"),
    ("C02", "cuqi/sampler/_langevin_algorithm.py", "        mu = theta_k + ((self.scale)/2)*g_logpi_k", "        mu = theta_k + (self.scale)*g_logpi_k"),
    ("C02", "cuqi/experimental/mcmc/_pcn.py", "mean + np.sqrt(1-self.scale**2)*(self.current_point-mean)", "mean + (1-self.scale**2)*(self.current_point-mean)"),
    ("C02", "cuqi/experimental/mcmc/_mh.py", "            self.current_point = x_star\n            self.current_target_logd = target_eval_star\n            acc = 1", "            self.current_point = x_star\n            acc = 1"),
    ("C02", "cuqi/sampler/_mh.py", "        u_theta = np.log(np.random.rand())\n        if (u_theta <= alpha)", "        u_theta = np.random.rand()\n        if (u_theta <= alpha)"),
    ("C02", "cuqi/experimental/mcmc/_cwmh.py", "                target_eval_t = target_eval_star\n                acc[j] = 1", "                acc[j] = 1"),
    ("C02", "cuqi/experimental/mcmc/_mh.py", "        if (u_theta <= alpha) and \\\n           (not np.isnan(target_eval_star)) and \\\n           (not np.isinf(target_eval_star)):", "        if (u_theta <= alpha):"),
    # C03
    ("C03", "cuqi/distribution/_beta.py", "return (self.alpha - 1)/x + (self.beta-1)/(x-1)", "return (self.alpha - 1)/x - (self.beta-1)/(x-1)"),
    ("C03", "cuqi/distribution/_gaussian.py", "return -( self.sqrtprec.T @ (self.sqrtprec @ (val - self.mean).T) )", "return -( self.sqrtprec.T @ (self.sqrtprec @ (val).T) )"),
    ("C03", "cuqi/distribution/_gaussian.py", "return model.gradient(self.sqrtprec.T @ (self.sqrtprec @ dev), *args, **kwargs)", "return model.gradient(self.sqrtprec @ dev, *args, **kwargs)"),
    ("C03", "cuqi/distribution/_posterior.py", "return self.likelihood.gradient(x)+ self.prior.gradient(x)", "return self.likelihood.gradient(x)"),
    ("C03", "cuqi/distribution/_lognormal.py", "return np.diag(1/val)@(-1+self._normal.gradient(np.log(val)))", "return np.diag(1/val)@(self._normal.gradient(np.log(val)))"),
    ("C03", "cuqi/distribution/_inverse_gamma.py", "        if np.any(val <= self.location):\n            return val*np.nan", "        if False:\n            return val*np.nan"),
    ("C03", "cuqi/utilities/_utilities.py", "        FD_gradient[i] = (func(x_plus_eps) - func_x)/epsilon", "        FD_gradient[i] = (func(x_plus_eps) - func_x)/(2*epsilon)"),
    # C04 / C05
    ("C04", "cuqi/distribution/_gaussian.py", "        logdet = np.sum(-np.log(prec))\n        rank = dim\n        if sparse_flag:\n            # cov = spa.diags(1/prec", "        logdet = np.sum(np.log(prec))\n        rank = dim\n        if sparse_flag:\n            # cov = spa.diags(1/prec"),
    ("C04", "cuqi/distribution/_gamma.py", "return np.sum(sps.gamma.logpdf(x, a=self.shape, loc=0, scale=self.scale))", "return np.sum(sps.gamma.logpdf(x, a=self.shape, loc=0, scale=self.rate))"),
    ("C04", "cuqi/distribution/_normal.py", "return np.prod(0.5*(1 + erf((x-self.mean)/(self.std*np.sqrt(2)))))", "return np.sum(0.5*(1 + erf((x-self.mean)/(self.std*np.sqrt(2)))))"),
    ("C04", "cuqi/distribution/_laplace.py", "return self.dim*(np.log(0.5/self.scale))", "return (np.log(0.5/self.scale))"),
    ("C05", "cuqi/distribution/_gaussian.py", "perturbation = splinalg.solve_triangular(self.sqrtprec, e, lower=True)", "perturbation = splinalg.solve_triangular(self.sqrtprec, e)"),
    ("C05", "cuqi/distribution/_gmrf.py", "s = self.mean + (1/np.sqrt(self.prec))*splinalg.spsolve(self._chol.T, xi)", "s = self.mean + (1/self.prec)*splinalg.spsolve(self._chol.T, xi)"),
    ("C05", "cuqi/distribution/_normal.py", "            s =  rng.normal(self.mean, self.std, (N,self.dim)).T", "            s =  np.random.normal(self.mean, self.std, (N,self.dim)).T"),
    ("C05", "cuqi/distribution/_gamma.py", "return rng.gamma(shape=self.shape, scale=self.scale, size=(N, self.dim)).T", "return rng.gamma(shape=self.shape, scale=self.rate, size=(N, self.dim)).T"),
    ("C05", "cuqi/distribution/_lognormal.py", "return np.exp(self._normal._sample(N,rng))", "return np.exp(self._normal._sample(N))"),
    # C08
    ("C08", "cuqi/experimental/mcmc/_hmc.py", "                alpha2 = n_2prime / max(1, (n_prime + n_2prime))", "                alpha2 = n_2prime / max(1, n_prime)"),
    ("C08", "cuqi/sampler/_hmc.py", "                alpha2 = n_2prime / max(1, (n_prime + n_2prime))", "                alpha2 = n_2prime / max(1, n_prime)"),
    ("C08", "cuqi/experimental/mcmc/_hmc.py", "            n_prime = int(log_u <= Ham_prime)     # if particle is in the slice", "            n_prime = int(log_u <= Ham)     # if particle is in the slice"),
    ("C08", "cuqi/experimental/mcmc/_hmc.py", "                s_prime = s_2prime *\\\n                    int((dpoints@r_minus.T)>=0) * int((dpoints@r_plus.T)>=0)", "                s_prime = s_2prime *\\\n                    int((dpoints@r_minus.T)>=0)"),
    ("C08", "cuqi/experimental/mcmc/_hmc.py", "        r_new += 0.5*epsilon*grad_new     # half-step", "        r_new += 0.0*epsilon*grad_new     # half-step"),
    ("C08", "cuqi/experimental/mcmc/_hmc.py", "            self._current_alpha_ratio = alpha/n_alpha", "            self._current_alpha_ratio = alpha/max(n, 1)"),
    ("C08", "cuqi/experimental/mcmc/_hmc.py", "            alpha2 = min(1, (n_prime/n)) #min(0, np.log(n_p) - np.log(n))", "            alpha2 = min(1, (n_prime/max(n+n_prime,1))) #min(0, np.log(n_p) - np.log(n))"),
    ("C08", "cuqi/experimental/mcmc/_hmc.py", "                self.current_point = point_prime\n                self.current_target_logd = logd_prime\n                self.current_target_grad = np.copy(grad_prime)", "                self.current_point = point_prime\n                self.current_target_logd = logd_prime"),
    # C09
    ("C09", "cuqi/experimental/mcmc/_gibbs.py", "        for par_name in self.par_names:\n\n            # Set target for current parameter\n            self._set_target(par_name)", "        snapshot = dict(self.current_samples)\n        for par_name in self.par_names:\n\n            # Set target for current parameter\n            self.samplers[par_name].target = self.target(**{k: v for k, v in snapshot.items() if k != par_name})"),
    ("C09", "cuqi/experimental/mcmc/_gibbs.py", "                self._refresh_cached_evaluations(sampler)\n", "                pass\n"),
    ("C09", "cuqi/sampler/_gibbs.py", "        par_names = self.par_names\n\n        # Sample from each conditional distribution\n        for par_name in par_names:\n\n            # Dict of all other parameters to condition on\n            other_params = {par_name_: current_samples[par_name_] for par_name_ in par_names if par_name_ != par_name}",
     "        par_names = self.par_names\n        start = dict(current_samples)\n\n        # Sample from each conditional distribution\n        for par_name in par_names:\n\n            # Dict of all other parameters to condition on\n            other_params = {par_name_: start[par_name_] for par_name_ in par_names if par_name_ != par_name}"),
    ("C09", "cuqi/experimental/mcmc/_gibbs.py", "            for _ in range(self.num_sampling_steps[par_name]):", "            for _ in range(max(self.num_sampling_steps[par_name]-1, 1)):"),
    # C10
    ("C10", "cuqi/experimental/mcmc/_conjugate.py", "        dist = Gamma(shape=m/2 + alpha, rate=.5 * np.linalg.norm(L @ (Ax - b))**2 + beta)\n\n        return dist.sample()\n\n\nclass _RegularizedGaussianGammaPair", "        dist = Gamma(shape=m + alpha, rate=.5 * np.linalg.norm(L @ (Ax - b))**2 + beta)\n\n        return dist.sample()\n\n\nclass _RegularizedGaussianGammaPair"),
    ("C10", "cuqi/sampler/_conjugate.py", "        dist = Gamma(shape=m/2+alpha,rate=.5*np.linalg.norm(L@(Ax-b))**2+beta)", "        dist = Gamma(shape=m/2+alpha,rate=np.linalg.norm(L@(Ax-b))**2+beta)"),
    ("C10", "cuqi/experimental/mcmc/_conjugate.py", "    return all(math.isclose(f(x), 1.0 / x) for x in [1.0, 10.0, 100.0])", "    return any(math.isclose(f(x), 1.0 / x) for x in [1.0, 10.0, 100.0])"),
    ("C10", "cuqi/experimental/mcmc/_conjugate.py", "        L = self.target.likelihood.distribution(np.array([1])).sqrtprec # L\n        alpha = self.target.prior.shape                                 # alpha\n        beta = self.target.prior.rate                                   # beta\n\n        dist = Gamma(shape=m/2 + alpha, rate=.5 * np.linalg.norm(L @ (Ax - b))**2 + beta)\n\n        return dist.sample()\n\n\nclass _Reg", "        L = self.target.likelihood.distribution(np.array([1])).sqrtprec # L\n        alpha = self.target.prior.shape                                 # alpha\n        beta = self.target.prior.rate                                   # beta\n\n        dist = Gamma(shape=m/2 + alpha, rate=.5 * np.linalg.norm(L @ (Ax - b))**2)\n\n        return dist.sample()\n\n\nclass _Reg"),
    ("C10", "cuqi/experimental/mcmc/_direct.py", "        self.current_point = self.target.sample()\n        return 1", "        self.current_point = self.target.sample(2).samples[:,-1]\n        return 1"),
    # C11
    ("C11", "cuqi/density/_density.py", "        new_density = copy(self)\n        new_density._original_density = self\n        return new_density", "        new_density = self\n        return new_density"),
    ("C11", "cuqi/distribution/_joint_distribution.py", "        new_joint._densities = self._densities[:] # Shallow copy of densities", "        new_joint._densities = self._densities # Shallow copy of densities"),
    ("C11", "cuqi/distribution/_joint_distribution.py", "            new_joint._densities[i] = density(**cond_kwargs)", "            new_joint._densities[i] = density(**cond_kwargs) if len(cond_kwargs) > 0 else density"),
    ("C11", "cuqi/distribution/_distribution.py", "                    func = partial(var_val, **var_args)\n                    setattr(new_dist, var_key, func)", "                    func = partial(var_val, **var_args)\n                    setattr(self, var_key, func)"),
    ("C11", "cuqi/model/_model.py", "            new_model._non_default_args = [x.name] # Defaults to x if distribution had no name", "            new_model._non_default_args[0] = x.name # Defaults to x if distribution had no name"),
    ("C11", "cuqi/experimental/mcmc/_gibbs.py", "        self.target = target() # Create a copy of target distribution (to avoid modifying the original)", "        self.target = target # Create a copy of target distribution (to avoid modifying the original)"),
    # C12
    ("C12", "cuqi/model/_model.py", "        if isinstance(x, CUQIarray) and  x.geometry == geometry:\n            x = x.funvals", "        if isinstance(x, CUQIarray) and  x.geometry == geometry:\n            x = x"),
    ("C12", "cuqi/model/_model.py", "        return self._2par(out, func_range_geometry, \n", "        return self._2par(out, func_domain_geometry, \n"),
    ("C12", "cuqi/model/_model.py", "        if hasattr(self.domain_geometry, 'gradient'):\n            grad = self.domain_geometry.gradient(grad, wrt_par)\n            grad_is_par = True", "        if hasattr(self.domain_geometry, 'gradient'):\n            grad_is_par = True"),
    ("C12", "cuqi/model/_model.py", "gradient = lambda direction, wrt: direction@jacobian(wrt)", "gradient = lambda direction, wrt: jacobian(wrt)@direction"),
    ("C12", "cuqi/model/_model.py", "            new_model = copy(self)\n", "            new_model = self\n"),
    ("C12", "cuqi/model/_model.py", "                                              item, is_par=True,", "                                              item, is_par=False,"),
    # C17
    ("C17", "cuqi/testproblem/_testproblem.py", "    elif BC.lower() == \"mirror\":\n        mode = \"mirror\"\n    elif BC.lower() == \"reflect\":\n        mode = \"reflect\"", "    elif BC.lower() == \"mirror\":\n        mode = \"reflect\"\n    elif BC.lower() == \"reflect\":\n        mode = \"mirror\""),
    ("C17", "cuqi/testproblem/_testproblem.py", "data_dist = cuqi.distribution.Gaussian(model(prior), (y_exact*noise_std)**2, name=\"y\")", "data_dist = cuqi.distribution.Gaussian(model(prior), (y_exact*noise_std), name=\"y\")"),
    ("C17", "cuqi/testproblem/_testproblem.py", "        elif (BC.lower() == \"nearest\"):\n            BC = \"edge\"", "        elif (BC.lower() == \"nearest\"):\n            BC = \"symmetric\""),
    ("C17", "cuqi/testproblem/_testproblem.py", "        sigma = np.linalg.norm(y_exact)/SNR\n        sigma2 = sigma*sigma # variance of the observation Gaussian noise\n        data = y_exact + np.random.normal(0, sigma, y_exact.shape)\n\n        # Bayesian model\n        x = cuqi.distribution.Gaussian(np.zeros(model.domain_dim), 1)\n        y = cuqi.distribution.Gaussian(model(x), sigma2)\n        \n        # Initialize Deconvolution as BayesianProblem problem\n        super().__init__(y, x, y=data)\n\n        # Store exact values\n        self.exactSolution = x_exact\n        self.exactData = y_exact\n        self.infoString",
     "        sigma = np.linalg.norm(y_exact)/SNR\n        sigma2 = sigma # variance of the observation Gaussian noise\n        data = y_exact + np.random.normal(0, sigma, y_exact.shape)\n\n        # Bayesian model\n        x = cuqi.distribution.Gaussian(np.zeros(model.domain_dim), 1)\n        y = cuqi.distribution.Gaussian(model(x), sigma2)\n        \n        # Initialize Deconvolution as BayesianProblem problem\n        super().__init__(y, x, y=data)\n\n        # Store exact values\n        self.exactSolution = x_exact\n        self.exactData = y_exact\n        self.infoString"),
    ("C17", "cuqi/testproblem/_testproblem.py", "            return 10*x[1] - 10*x[0]**3 + 5*x[0]**2 + 6*x[0]\n        def jacobian(x):\n            return np.array([[-30*x[0]**2 + 10*x[0] + 6, 10]])\n        model = cuqi.model.Model(forward, range_geometry=1",
     "            return 10*x[1] - 10*x[0]**3 + 5*x[0]**2 + 6*x[0]\n        def jacobian(x):\n            return np.array([[-30*x[0]**2 + 5*x[0] + 6, 10]])\n        model = cuqi.model.Model(forward, range_geometry=1"),
    # C18
    ("C18", "cuqi/pde/_pde.py", "                dt = self.time_steps[idx+1] - t\n                self.assemble_step(t)", "                dt = self.time_steps[idx+1] - t\n                self.assemble_step(self.time_steps[idx+1])"),
    ("C18", "cuqi/pde/_pde.py", "A, u_pre + dt*self.rhs, self._linalg_solve", "A, u_pre, self._linalg_solve"),
    ("C18", "cuqi/pde/_pde.py", "            info = returned_values[1:]", "            info = returned_values[2:]"),
    ("C18", "cuqi/model/_model.py", "return direction@self.pde.jacobian_wrt_parameter(wrt)", "return self.pde.jacobian_wrt_parameter(wrt)@direction"),
]


def run_one(pid, rel, old, new):
    tmp = tempfile.mkdtemp(prefix="cuqi_mut_", dir="/tmp")
    try:
        shutil.copytree(os.path.join(REPO, "cuqi"), os.path.join(tmp, "cuqi"),
                        ignore=shutil.ignore_patterns("__pycache__", "*.npz", "*.mat", "*.png"))
        # data files are needed by some test problems: link them
        for fn in os.listdir(os.path.join(REPO, "cuqi", "data")):
            if fn.endswith((".npz", ".mat", ".png")):
                os.symlink(os.path.join(REPO, "cuqi", "data", fn), os.path.join(tmp, "cuqi", "data", fn))
        p = os.path.join(tmp, rel)
        s = open(p).read()
        if old not in s:
            return "PATTERN-NOT-FOUND"
        open(p, "w").write(s.replace(old, new, 1))
        env = dict(os.environ, VERIF_REPO=tmp)
        r = subprocess.run([os.path.join(ROOT, "check"), pid, "--tier", "quick", "--no-evidence"], env=env,
                           capture_output=True, text=True, timeout=3600)
        first = [l for l in r.stdout.splitlines() if l.startswith("violation in")][:1]
        return f"exit={r.returncode} {'CAUGHT' if r.returncode == 1 else 'MISSED'} {first[0][:150] if first else ''}"
    finally:
        shutil.rmtree(tmp, ignore_errors=True)


def main():
    want = set(a.upper() for a in sys.argv[1:])
    bad = 0
    for pid, rel, old, new in MUTANTS:
        if want and pid not in want:
            continue
        res = run_one(pid, rel, old, new)
        print(f"{pid} {rel}: {new.strip().splitlines()[0][:70]!r} -> {res}", flush=True)
        bad += "CAUGHT" not in res
    print("missed/errored:", bad)
    return 1 if bad else 0


if __name__ == "__main__":
    sys.exit(main())
