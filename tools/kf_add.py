#!/usr/bin/env python3
"""kf_add.py <violation.json|glob> <KF-id> '<match json>' '<what>' : record a genuine defect as known finding."""
import json, sys, glob, os
ROOT = os.path.dirname(os.path.dirname(os.path.abspath(__file__)))
src, kid, match, what = sys.argv[1:5]
src = sorted(glob.glob(src))[0]
d = json.load(open(src))
pid = d["property"]
os.makedirs(os.path.join(ROOT, "replays", pid), exist_ok=True)
rel = f"replays/{pid}/kf_{kid.lower().replace('kf-', '').replace('-', '_')}.json"
keep = {k: d[k] for k in ("property", "subcheck", "case", "message", "details", "tags") if k in d}
json.dump(keep, open(os.path.join(ROOT, rel), "w"), indent=1)
p = os.path.join(ROOT, "known_findings.json")
k = json.load(open(p))
k["findings"] = [f for f in k["findings"] if f["id"] != kid]
k["findings"].append({"id": kid, "property": pid, "subcheck": d["subcheck"], "match": json.loads(match),
                      "replay": rel, "what": what})
json.dump(k, open(p, "w"), indent=1)
print("added", kid, "->", rel)
