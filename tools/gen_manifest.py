#!/usr/bin/env python3
"""Regenerates /verif/MANIFEST.json from the table below (one entry per claimed property)."""
import json
import os

ROOT = os.path.dirname(os.path.dirname(os.path.abspath(__file__)))

CLAIMED = {
    "C01": dict(
        technique="Hypothesis property tests over generated model graphs and conditioning programs: metamorphic relation (reduced object vs joint) + independent reference sum of factor log-densities + required refusals",
        text="For generated hierarchical graphs (hyper-parameters entering through one- and two-argument named callables, Gaussian/GMRF/"
             "LMRF/CMRF/Laplace/Normal latents, Gaussian/Normal/Laplace/Lognormal data over matrix, function-pair, non-linear and "
             "plain-callable forward maps), a complete assignment, a fixed/free partition and a conditioning program (order, grouping into "
             "calls, positional vs keyword, final evaluation mode), the reduced object's logd at the free values must equal the joint logd "
             "at the complete assignment and the sum of scipy/docstring reference log-densities; one-step vs several-step routes, the "
             "stacked-vector view, Posterior / MultipleLikelihoodPosterior via JointDistribution and BayesianProblem(set_data) must give "
             "the same number; evaluations with missing, unknown, doubly specified or surplus arguments must raise.",
        text2="Shallow and deep copies of the reduced object and of the joint must evaluate like their originals; one LinearModel object serving two unknowns; a latent at 4.2e6 with standard deviation 1e-3. A stacked vector with missing or surplus entries must be refused; the joint is evaluated and conditioned a second time after the program (no state left behind).",
        note="Trusted: scipy.stats reference densities and the C20 reference stencils. Names always given explicitly. One recorded finding "
             "(conditioning an already reduced Posterior on its last variable raises) is excluded and counted.",
        design="3/C01"),
    "C02": dict(
        technique="Hypothesis property tests under an interposed random stream: the proposal map is measured by basis probing, the uniform draw is scripted at alpha_ref*(1 +- delta), the decision is compared with the exact Metropolis-Hastings rule; reference sweep for CWMH",
        text="For MH, pCN, MALA (both interfaces) the proposal mechanism is measured (x' = a(x) + B(x) xi from a fresh kernel with noise 0 and e_i, "
             "at x and at x'), alpha_ref = min(1, pi(x')q(x|x')/(pi(x)q(x'|x))) is computed from the target's own logd, and the scripted "
             "uniform is placed at alpha_ref*(1 +- delta), delta down to 1e-9: a kernel whose acceptance probability is off by a relative "
             "1e-9 is caught in one transition. On rejection state and caches must be bit-identical, on acceptance they must equal fresh "
             "evaluations at x'. CWMH sweeps are replayed by a reference sweep fed the same proposals and uniforms. Histories: fresh, after "
             "warm-up/adaptation under a seeded stream, after get_state -> set_state into a new sampler. NaN / -inf proposals must be "
             "rejected for every u including 1e-300. Exact MH acceptance for the measured q is detailed balance, hence invariance.",
        text2="States outside the support: from a state of log-density -inf a proposal outside is never accepted and a proposal inside is accepted with probability one; un-normalised targets (log-density shifted by -900/-5000/+400).",
        note="Assumes proposals are affine in the base normal draw (checked per case). Targets: quadratic+quartic with analytic gradient, "
             "linear/non-linear Gaussian posteriors for pCN; dim <= 5.",
        design="3/C02"),
    "C03": dict(
        technique="Hypothesis property tests: gradient vs Richardson-extrapolated central differences of the same object's logd; required non-finite outside the support; refusal accepted",
        text="For generated distributions (all families/parameterisations, Gaussian forms on both sides of the sparse switch, MRFs over "
             "bc/order/1D-2D with non-zero location, gallery and user-defined densities), likelihoods of Gaussian/Lognormal data "
             "distributions over generated models (matrix, function pair, Jacobian, direction-Jacobian) and geometries, posteriors and "
             "multiple-likelihood posteriors, every returned gradient must equal the numerical derivative of the same object's logd in "
             "parameter space; exceptions are refusals; outside the support a finite vector is a violation; with enable_FD() the "
             "forward-difference gradient must equal the derivative with a looser tolerance.",
        text2="Evaluation points as geometry-carrying arrays (parameters; function values for likelihoods) with an equal geometry built separately; expansion range geometries (gradient must be refused); a sparse model matrix updated in place after the likelihood was built. Gradients evaluated on a buffer that was overwritten in place; translation invariance of GMRF/CMRF gradients under periodic/Neumann boundary conditions; fields of 400-700 nodes (a non-finite log-density at an ordinary field is a violation).",
        note="Trusted: numpy; derivative error estimate |D(h)-D(h/2)| must be below 1e-3 relative or the case is inconclusive; "
             "points at kinks (Laplace location, cusp of CalSom91/donut at the origin) are moved away. PDE-based model gradients: C18.",
        design="3/C03"),
    "C04": dict(
        technique="Hypothesis property tests against scipy.stats / docstring reference densities, adaptive quadrature for normalisation and cdf, metamorphic equality of all Gaussian parameterisations",
        text="Generated parameters, passing modes (vector, scalar broadcast over geometry=n and (a,b), list, callable conditioned later) "
             "and points inside/outside the support for every family; logpdf/pdf/cdf/logd compared with independent references; for "
             "dim=1 exp(logpdf) is integrated by adaptive quadrature (=1, and cdf = running integral); one covariance rendered in "
             "4 parameterisations x 5 storage forms x 4 square-root kinds on both sides of the (lowered, and in the thorough tier true) "
             "dense/sparse switch must equal multivariate_normal(mean, Sigma); MRF priors via the C20 references.",
        text2="Further sub-checks: conditional siblings (copies conditioned on different values, keywords in any order, one step or two), storage-switch independence (same input, same density on both sides of MIN_DIM_SPARSE), either-convention sqrtcov relation, re-assignment of parameters on a live object (also changing structure), moderate true sizes 40-90 without a bound on |logpdf|, sparse csr/csc/dia/coo inputs, integer-typed and list inputs, covariance scales 1e-10..1e18.",
        note="Trusted: scipy.stats, scipy.integrate.quad. |logpdf| <= 600. SmoothedLaplace is compared with its documented formula only "
             "(the documented formula is itself not normalised). Recorded findings excluded and counted.",
        design="3/C04"),
    "C05": dict(
        technique="Hypothesis property tests: scripted random generator reads the exact affine law of Gaussian/GMRF/Lognormal draws; PIT + KS (two-stage) for the other families; stream determinism and shape checks",
        text="For affine samplers a duck-typed generator fed with zero/unit vectors reveals offset and linear map of the draw exactly: "
             "offset must be the mean and B B^T the inverse (pseudo-inverse for intrinsic GMRFs) of the Hessian of the object's own "
             "log-density. Other families: probability-integral transform of 20k (quick) / 100k (thorough) draws against the reference "
             "marginal cdf (own logpdf integrated for the modified half-normal), KS test with a confirming second stage. Plus: same "
             "generator state => same draws, global state untouched, one draw = array with the geometry, N draws = Samples with N "
             "columns, conditional distributions refuse.",
        text2="Further sub-checks: resample after re-assigning parameters on a live object, square batches (N = dim), numpy Generator as well as RandomState, draws' covariance compared with the specified covariance.",
        note="Statistical part detects distributional errors of a few percent (KS at n=20k: sup-distance ~0.015), not smaller; "
             "exact part has tolerance 1e-8 (1e-6 through eigendecompositions / regularised Cholesky).",
        design="3/C05"),
    "C06": dict(
        technique="Hypothesis property tests with a scripted standard-normal stream: the new state is read as an affine map of the perturbation (zero/unit vectors) and compared with the closed-form Gaussian posterior; basis probing of the stacked operator",
        text="For generated linear-Gaussian posteriors (1-3 likelihoods, every Gaussian input form for noise and prior, non-zero prior mean, "
             "GMRF priors, matrix- and function-backed models, experimental and legacy samplers incl. the 5-tuple input) one RTO step "
             "with np.random.randn scripted gives x_new = a + B e; a must be the closed-form posterior mean, B B^T the posterior "
             "covariance, the map affine and independent of the current state, and the stacked operator's adjoint action the exact "
             "transpose of its forward action. For UGLA the same reading must give mean and covariance of the documented local Gaussian "
             "A^T Gamma^-1 A + (1/scale) D^T W_k D at the current state.",
        text2="A user forward callable failing once inside a step (caught, step repeated); UGLA smoothing parameter re-assigned after set-up. The same problem in units x1e5; a larger, less well conditioned class (second-order GMRF prior, 24/40 unknowns); an MRF on the other grid layout built first; memory layouts of matrix and data. History independence (every class, incl. the one excluded by the recorded UGLA finding): step k of a chain must equal the step a fresh sampler started at the same state makes under the same scripted perturbation. A third of the RTO cases run with cuqi.config.MIN_DIM_SPARSE lowered so that the sparse square-root code path is taken.",
        note="Inner CGLS run with tol 1e-14 and maxit 20n+100 (convergence itself is C16's subject). UGLA with non-zero LMRF location is a "
             "recorded finding (excluded, counted).",
        design="3/C06"),
    "C07": dict(
        technique="Hypothesis property tests: basis probing of forward/adjoint/get_matrix/T (exact decision of a linear identity) + inner-product identity",
        text="For each generated LinearModel (dense/sparse matrix or function pair, generated domain/range geometries) and each "
             "shipped linear test problem under generated options, forward and adjoint are probed on all unit vectors, which "
             "decides G = F^T, get_matrix() = F and the .T relations exactly for that model; generated x, y add the inner-product "
             "form on ndarray and CUQIarray inputs. Generated search over configurations; sizes bounded (dim <= 10, images <= 10x10).",
        text2="Exact homogeneity under scaling by 2^-47 and 2^30; memory layouts of the model matrix.",
        note="Trusted: linearity of forward/adjoint on parameter vectors (itself probed), numpy. Classes under recorded "
             "known findings (non-orthonormal expansion geometries; Deconvolution2D even PSF / reflective BC) are excluded and counted.",
        design="3/C07"),
    "C08": dict(
        technique="Hypothesis property tests with a recording target and scripted momentum/slice draws: every evaluated point is compared with a reference leapfrog orbit and a reference Algorithm-3 tree (doubling replay, stopping rule, caches, acceptance statistic); repeated fixed-momentum transitions give selected-leaf frequencies tested by chi-square against the exact sub-sampling law; whitened invariance test from exact target draws (two-stage)",
        text="For generated targets (Gaussian with generated precision, banana, user-defined with gradient), step sizes, depth limits and "
             "both interfaces the momentum (np.random.randn) and slice (np.random.exponential) draws are scripted and every logd/gradient "
             "evaluation recorded. Exact part: each evaluated point must lie on the reference leapfrog orbit from (x0, r0) in the order a "
             "doubling tree visits it; doubling stops exactly at the reference no-U-turn / divergence / depth rule; the new state is an "
             "in-slice leaf of a completed doubling; cached logd/gradient equal the target's at the new state; the acceptance statistic is "
             "the mean Metropolis probability over the last doubling; the first dual-averaging step size follows from it. Selection law: "
             "the same momentum and slice repeated M times, the frequency with which each leaf is returned per direction pattern must be "
             "that of uniform progressive sub-sampling with top-level probability min(1, n'/n). Invariance: x ~ target exactly, k "
             "transitions, whitened KS/mean/variance tests.",
        text2="The exact part draws depth 0-6 (last doublings cut short inside their second half occur) and includes a target with bounded support (leaves with log-density -inf and nan gradient count with probability 0; the reported statistic must be finite); the invariance test includes a product of Beta distributions. The invariance test includes un-normalised targets (log-density shifted by -900/-5000/+400) and, for both interfaces, the step size produced by the sampler's own warm-up.",
        note="Selection law and invariance are statistical (two-stage, joint false-alarm <= 1e-11 per test): 4000/20000 repeats per case; "
             "detect selection-probability errors of a few percent. Depth <= 3 in the selection law, <= 6 in the exact part.",
        design="3/C08"),
    "C09": dict(
        technique="Hypothesis property tests over run histories with harness-written spy subclasses of the block samplers, replayed against a reference model of the sweep; scripted-uniform MH decision test inside the sweep; successive-conditional statistical invariance test (two-stage)",
        text="For generated joint targets (2-4 blocks, hyper-parameters in likelihood and priors), generated sampler assignments (MH, CWMH, "
             "Conjugate, LinearRTO, MALA; legacy classes for cuqi.sampler.Gibbs), per-block step counts, sweep counts, warm-up and repeated "
             "sample calls, every block step is recorded (target held, point before/after). A reference model (own dict of current values) "
             "checks after every block update: blocks visited once per sweep in order; the block sampler starts from the block's current "
             "value and is advanced the configured number of times as one chain; the target it holds has the logd differences of the joint "
             "conditioned on the model's current other values; the stored sample of sweep i is the tuple of values after sweep i; a second "
             "sample call resumes from the last stored tuple. MH blocks additionally run the C02 decision test against the true current "
             "conditional inside the sweep. Invariance: theta ~ prior, y ~ p(y|theta), s sweeps on p(theta|y) with exact block samplers "
             "must leave theta prior-distributed (KS and variance tests on closed-form pivots, two-stage rule).",
        text2="numpy integer step counts; a deep copy of the sampler taken mid-run must continue like the original from the same random state. A decoy HybridGibbs built with default step counts and re-configured first; tiny-move histories (proposal scales 1e-5 of the usual ones). Block samplers include pCN (decision test against the likelihood ratio of the current conditional, proposal learnt by a dry run with the state restored through get_state/set_state); the sampling_strategy / num_sampling_steps dictionaries are passed in permuted key order and with step counts for a subset of blocks; legacy Gibbs is run as sample(N, Nb>0) followed by sample(M).",
        note="Statistical part: 600 (quick) / 6000 (thorough) replicates per configuration: detects gross violations of invariance only "
             "(KS sup-distance ~0.07 / 0.02); the history part is exact.",
        design="3/C09"),
    "C10": dict(
        technique="Hypothesis property tests: np.random.gamma interposed in record mode captures the Gamma the sampler draws from; compared with the target's own logd along the hyper-parameter axis; required-rejection checks; differential Direct vs target.sample under one seeded stream",
        text="For generated supported conjugate pairs (Gaussian cov=1/s or prec=s with vector or model mean, GMRF prec=d over bc/order/"
             "1D-2D; both interfaces; Posterior built directly or via JointDistribution conditioning) the (shape, scale) of the sampler's "
             "single Gamma draw is captured and log-density-minus-Gamma-kernel must be constant on a 6-point grid of the target's own "
             "logd; unsupported structures (wrong functional dependence, two occurrences, multivariate Gamma, non-Gamma prior, non-"
             "Gaussian likelihood) must be rejected - an accepted one is a violation only if what it draws from is not the true "
             "conditional; ConjugateApprox: rejection rules only; Direct: step() equals target.sample() under the same seeded stream.",
        text2="Data and mean on an exact large base line (2^20, 2^23); a conjugate step on the other grid layout made first. A third of the experimental cases re-target a sampler object that has already been used on another posterior of the same structure (as HybridGibbs does).",
        note="Recorded findings (GMRF with periodic/neumann bc: shape uses len(x) instead of the rank; legacy Conjugate without structural "
             "validation) are excluded and counted.",
        design="3/C10"),
    "C11": dict(
        technique="Hypothesis RuleBasedStateMachine (stateful testing) over a pool of objects with behavioural fingerprints; invariant checked after every rule; failing histories shrunk and replayed as JSON operation lists",
        text="The machine starts from a generated model graph (C01 grammar plus an implicitly regularised Gaussian option) and applies "
             "generated interleavings of condition (subset, positional/keyword), logd, gradient, sample, to_likelihood, model application, "
             "200-fold (thorough: 1000-fold) re-conditioning loops and short MH/CWMH/NUTS/HybridGibbs/legacy Gibbs runs on any pooled "
             "object, adding every derived object to the pool. After every step every pooled object must still show the fingerprint taken "
             "at its creation (logd and gradient at fixed assignments, parameter names, conditioning variables, name, dim, geometry type, "
             "seeded samples, model forward values and argument names), and conditioned copies must report their original's name.",
        text2="Sub-check copy_names: eleven families (incl. all regularised Gaussians), name explicit or inferred from the Python variable, looked up before or after conditioning, one or two steps, then conditioned on the variable itself. Sub-check inspection: the same conditioning of an inspected (dim, geometry, name, variable lists, repr) and of a never inspected original must agree. The pool contains a conditional distribution whose mean is a function of three conditioning variables, and new joints assembled from pooled objects. The conditioning rule draws a value variant so that siblings conditioned on different values coexist; every newly derived object is additionally compared with the same derivation replayed on freshly built, untouched originals (history independence).",
        note="Explicit mutators (enable_FD, attribute assignment) are not rules; cosmetic geometry variable labels are not part of the "
             "fingerprint. 25 (quick) / 50 (thorough) steps per history.",
        design="3/C11"),
    "C12": dict(
        technique="Hypothesis property tests: metamorphic relation across input representations against a harness-computed reference + finite-difference Jacobian oracle + required-refusal checks",
        text="For generated models (Jacobian, direction-Jacobian, derivative-free, linear from matrix/function pair) over generated "
             "domain/range geometries (identity-like, image, mapped, KL, step, a user geometry with its own gradient) the output for "
             "ndarray parameters, flagged function values, CUQIarrays in both representations and Samples must equal "
             "range.fun2par(F(domain.par2fun(p))) and be wrapped like the input; gradient must equal J_p^T d (central differences of "
             "forward) or be refused exactly when it cannot be formed; model(distribution) must only rename the input on a copy.",
        text2="Sub-check pde_time_model: outputs of a time-dependent PDE model are kept and compared after later evaluations; representation flags given as numpy booleans (forward, gradient, CUQIarray). Sub-check pde_model: PDE-based models on ndarray / CUQIarray / function-value / Samples inputs, another PDE model applied to the same array object first, buffers overwritten in place, tiny-step sample collections; user functions return their results in generated memory layouts; image flattening is compared with the pixel order by definition. References for mapped geometries are composed by the harness (wrapped geometry, then map); range geometries include KL/step expansions and mapped geometries around them (gradient must then be refused); user functions are generated both defensively (np.asarray) and as plain array expressions so that geometry-carrying arrays travel through the user's arithmetic; a user subclass of MappedGeometry around an expansion supplies its own gradient; linearisation points are given as parameters, function values and CUQIarrays of either kind, alone and together with a CUQIarray direction; integer-typed and function-value Samples.",
        note="Trusted: numpy; central differences with step 1e-6 (tolerance 2e-5). PDE-based models are covered under C18.",
        design="3/C12"),
    "C17": dict(
        technique="Hypothesis property tests over constructor options: differential against independent reference operators, scripted noise stream for the exact noise law, object-identity/consistency checks",
        text="For generated option combinations of every shipped test problem the forward model is compared with an independently "
             "written reference operator (scipy convolve1d with the stated PSF/mode; direct 2-D convolution sums of the boundary-"
             "extended image; own explicit Euler loop; own assembly of D^T diag(kappa) D u = f; own Abel quadrature; the documented "
             "cubic and its Jacobian); exactData must be the reference applied to exactSolution; with the normal draws scripted, "
             "data - exactData must equal the stated noise exactly (sigma*e, |y|*sigma*e, ||y||/SNR*e); model/data/likelihood/prior/"
             "posterior/get_components() must be the same objects with consistent geometries; posterior.logd must equal the Gaussian "
             "log-likelihood of the stated noise plus prior.logd.",
        text2="Named 2-D phantoms with the caller's global stream untouched; Deconvolution1D arguments by position in the documented order; numpy scalar PSF parameters; deep copies of the PDE problems; Poisson conductivities in units 1e-6 / 1e-9. PSFs are compared with their definitions (named 1-D and 2-D kernels, integer and non-integer parameters, PSF_size > dim); the field representation of the PDE problems (field_type incl. a geometry object, then map) is composed by the harness; documented grids are asserted; the problem is unchanged after every single use; construction refusals other than the spline's minimum node count are violations.",
        note="Trusted: scipy.ndimage.convolve1d as the documented definition of Deconvolution1D; PDE discretisation constants mirror the "
             "problem description; the legacy circulant form is accepted as convolution or correlation with the given kernel.",
        design="3/C17"),
    "C18": dict(
        technique="Hypothesis property tests: residuals of the discrete equations recomputed independently, reference restriction/interpolation, by-hand assemble-solve-observe pipeline, analytic + finite-difference Jacobian",
        text="Generated affine-in-parameter steady and time-dependent linear PDE forms (time-dependent operator and source, non-uniform "
             "time grids, both Euler methods) are solved through every supported linear-solver calling convention; each returned level "
             "must satisfy its recurrence with the operator of that step; info must be exactly the solver's extra return values; observe "
             "must be exact at coinciding nodes/times and equal the stated scipy interpolant elsewhere, followed by the observation map; "
             "PDEModel.forward/gradient must equal the pipeline done by hand and its analytic/finite-difference derivative.",
        text2="Grids in other units (x1e-7) and far from the origin (+5e5); a sensor listed twice; zero initial state with a source switched on at a later time level.",
        note="Trusted: numpy/scipy linear algebra and interpolation routines.",
        design="3/C18"),
    "C13": dict(
        technique="Hypothesis property tests: round-trip / idempotence / batch-vs-column metamorphic relations over generated geometries and grids",
        text="Generated geometries of every shipped kind (incl. mapped with/without inverse, KL with any number of modes, step "
             "expansions on rational, float and linspace grids with any number of steps) are checked for fun2par(par2fun(p)) = p, "
             "projection idempotence, partition of unity of the step indicators with documented interval membership, batch = "
             "column-wise application, reported shapes = produced shapes, and lossless Samples/CUQIarray conversions. Generated "
             "search; dimensions <= 12 (grids <= 60 nodes in the thorough tier).",
        text2="StepExpansion built with positional arguments in the documented order, projection checked against the per-step mean/max/min of a general function; visual_only given as a numpy boolean. Function values and parameters handed over in other memory layouts; step grids in units 1e-6..1e-15 and 1e6; a coupled (non element-wise) map in the geometry family, decided through the sample-collection conversions.",
        note="Trusted: numpy; tolerance 1e-9 for sine-transform round trips; nodes within 1e-9 of a step boundary may belong to either adjacent step.",
        design="3/C13"),
    "C14": dict(
        technique="Hypothesis property tests over run histories: differential runs under an identical (seeded / captured-and-restored) global random stream compared bitwise; callback log vs stored chain; fresh-sampler state comparison after reinitialize",
        text="For every experimental sampler, HybridGibbs, every legacy sampler and legacy Gibbs on generated small targets: (i) sample(N) "
             "then sample(M) must equal sample(N+M) bitwise; (ii) a run checkpointed at any position c of the sampling phase (after optional "
             "warm-up), loaded into a freshly constructed sampler with the captured random state restored, must reproduce the remaining "
             "transitions bitwise; (iii) the callback log (copy of the state and index at call time) must have one entry per transition, "
             "consecutive indices, and equal the finally stored chain column by column (which also shows stored entries are never altered "
             "later); lengths as requested; legacy sample(N, Nb) = last N states of the N+Nb chain, first column = x0; (iv) reinitialize() "
             "must give the get_state() of a newly constructed, initialised sampler and an empty history.",
        text2="Callbacks that inspect the sampler's record, fail once (run continued), or are falsy callable objects; the user's log-density failing once mid-transition (continuation = fresh sampler at the same point); a second run of equal length after reinitialize under another stream; a Metropolis block with three transitions per sweep in Gibbs (record = sampler state). Sub-check burnthin: burn-in and thinning of a recorded chain held as parameters, function values or vectorised function values on 1-D and 2-D geometries (states Nb, Nb+Nt, ... in order; the chain itself unaltered). Histories of warm-up and sampling phases in any order; the first Gibbs chain is unaltered by a continuation.",
        note="Random stream = numpy global state. Legacy CWMH (in-place update on a view of the chain, pinned by the existing regression "
             "tests) is a recorded finding, excluded and counted. RegularizedLinearRTO run with a numeric step size.",
        design="3/C14"),
    "C15": dict(
        technique="Hypothesis property tests: closed-form posterior mean/covariance from a basis-probed effective matrix, optimality probes + gradient test, multi-start reference optimum, scripted normal draws for the direct sampling route",
        text="Generated linear-Gaussian problems (every covariance form for noise and prior, non-zero prior mean, default/Continuous1D/KL/"
             "Step domain geometries, matrix- and function-backed models) and smooth unimodal non-linear problems: MAP must equal the "
             "closed-form posterior mean computed with the effective parameter-to-output matrix (or raise), ML the weighted least-squares "
             "solution; no probe point at 1e-3..1e-1 posterior standard deviations may have a larger logd and the gradient must vanish in "
             "units of the posterior scale; for non-linear problems the estimate must be as good as a multi-start high-precision optimum; "
             "with np.random.randn scripted the direct sampling route must have offset = closed-form mean and B B^T = closed-form covariance.",
        text2="Sub-check bounded_prior_map (Beta prior, start vectors on the boundary of the support: fail or return a maximiser, never a zero-density point); closed-form reference evaluated in extended precision. Vague priors (variance ratio 1e8, conditioning-aware tolerances); a decoy model on the same callables with another domain geometry; non-linear MAP from a far start vector. Cases also materialise covariances with compute_cov() first (closed-form route for prec/sqrtprec/sqrtcov inputs) and pass a generated x0 to MAP. ML by numerical optimisation is accepted when it is the weighted least-squares solution or stationary for the reference log-likelihood within the solver's tolerance.",
        note="Trusted: numpy.linalg closed forms; scipy optimisers for the multi-start reference. Exceptions are refusals (allowed). "
             "Matrix-backed models with KL/Step geometry are a recorded finding (excluded, counted).",
        design="3/C15"),
    "C16": dict(
        technique="Hypothesis property tests: optimality-system residuals vs numpy.linalg references, matrix-vs-function differential, differential against direct SciPy calls, variational characterisation of projections/prox",
        text="CGLS/PCGLS run to tolerance 1e-12 on generated well-conditioned problems (over/under-determined, dense/sparse/function "
             "form, shift, start vector, sparse SPD preconditioner) must solve the (shifted) normal equations and agree with the "
             "numpy reference and between operator forms; FISTA/ISTA results must be fixed points of the prox-gradient map and no "
             "worse than perturbed feasible points; LM results must be stationary within gradtol; the SciPy wrappers must reproduce "
             "the direct SciPy call bit for bit; projections/soft-thresholding must equal the closed forms and satisfy the variational "
             "inequality. Iteration-cap exits are inconclusive. Sizes <= 14.",
        text2="SciPy wrappers with bounds / constraints and three solve() calls on one object; float32 data vectors; start vectors written as float32 / integers. CGLS/PCGLS from a start that already solves the system and with a zero right-hand side; systems in other units (operator x1e-5..1e5, data x1e-6..1e6); user-level tolerance 1e-6; PCGLS with shift and with preconditioners of other overall size; memory layouts of A, b, x0. FISTA from a start vector of another number type (int, float32) must reproduce the run from the same numbers as float64 exactly; step size and proximal map re-assigned on a live solver; LM on problems translated by 1e3 / 1e6; proximal maps with exact zeros; CGLS/PCGLS non-convergence on a well-conditioned system is a violation.",
        note="Trusted: numpy.linalg, SciPy optimisers as reference; LM is exercised with gradtol >= 1e-8 (tighter tolerances are "
             "not reachable in floating point on large-residual problems, see DESIGN).",
        design="3/C16"),
    "C19": dict(
        technique="Hypothesis property tests against a numpy reference model (incl. operation-sequence histories) + differential test against arviz per variable",
        text="burnthin, statistics and conversion chains of Samples/JointSamples are compared with direct numpy computation on the "
             "raw array for generated arrays, burn-in/thinning values incl. boundaries, credibility levels and generated sequences "
             "of burnthin/funvals/vector/parameters calls interpreted against a numpy model; ESS/R-hat are compared with arviz "
             "applied to each variable's row in order, on rows with different autocorrelation so that a permutation shows.",
        text2="Chains on a large base line (2^27), chains moving in steps of 1e-7, a coupled-map geometry, sample arrays in other memory layouts.",
        note="Trusted: numpy reductions, arviz ess/rhat as reference implementations.",
        design="3/C19"),
    "C20": dict(
        technique="exhaustive enumeration of the operator family + Hypothesis property tests against dense reference stencils",
        text="Every 1-D (n=2..24) and 2-D (n=2..7) operator for every boundary condition/order/dx is enumerated and compared "
             "with an independent dense reference (pad-then-diff); the MRF priors are compared with the documented densities of "
             "those reference differences at generated points with non-zero location. Exhaustive inside the size bounds, "
             "generated search for the continuous inputs; no proof beyond the bounds.",
        text2="Zero-sum locations (alternating, centred ramp, opposite spikes); translation invariance of intrinsic GMRF log-densities; LMRF/CMRF fields of 400-700 nodes and 18x18/26x26 grids; a decoy MRF on the other grid layout built first. Sub-checks nonsquare_2d (MRFs on non-square 2-D geometries must be refused or correct) and gmrf_large (2-D 20-36, 1-D 300-700: normalising constant against eigenvalues of the reference precision); pdf must equal exp(logpdf) for LMRF/CMRF.",
        note="Trusted: numpy/scipy dense linear algebra; the reference reading of the boundary conditions stated in "
             "checks/c20.py (ASSUMPTIONS).",
        design="3/C20"),
}

PENDING_REASON = "check not built yet in this session (planned, see DESIGN.md section 3); not claimed until it runs quiet on the unchanged tree"


def main():
    props = [json.loads(l)["id"] for l in open(os.path.join(ROOT, "properties.jsonl"))]
    checks = []
    for pid in props:
        if pid not in CLAIMED:
            continue
        c = CLAIMED[pid]
        checks.append({
            "property_id": pid,
            "quick_cmd": f"./check {pid} --tier quick",
            "thorough_cmd": f"./check {pid} --tier thorough",
            "evidence_file": f"/verif/evidence/{pid}.json",
            "replay_cmd_template": f"./check {pid} --replay {{path}}",
            "engine": "vlib",
            "level_claimed": {"category": "exploration", "text": c["text"] + (" " + c["text2"] if c.get("text2") else ""), "design_ref": c["design"]},
            "level_note": c["note"],
            "technique": c["technique"],
        })
    na = [{"property_id": pid, "reason": PENDING_REASON} for pid in props if pid not in CLAIMED]
    man = {
        "version": 1,
        "setup_cmd": "sh /verif/setup.sh",
        "hooks": {
            "guard": "CUQIPY_VERIF",
            "enable": "no source hooks are needed: checks import cuqi from /repo's working tree (PYTHONPATH) and observe it by "
                      "interposing numpy.random attributes, recording wrapper targets and harness-written sampler subclasses",
            "baseline_off_cmd": "cd /repo && /venv/bin/python -m pytest -ra -q -p no:cacheprovider --timeout=900 --continue-on-collection-errors",
            "source_commits": [],
            "add_only": True,
        },
        "engines": [{"name": "vlib", "path": "/verif/vlib", "serves_properties": sorted(CLAIMED),
                     "kind_free_text": "Hypothesis property-based tests / exhaustive enumerations over JSON-able cases with "
                                       "independent oracles, run in a process pool; plain replay path without Hypothesis"}],
        "checks": checks,
        "notes": "Exit 0 = held on everything explored (KNOWN-FINDING lines list recorded genuine defects from known_findings.json); "
                 "exit 1 + VIOLATION line; exit 2 = harness error. VERIF_SEED seeds Hypothesis; VERIF_REPO points the checks at another tree.",
        "not_applicable": na,
    }
    with open(os.path.join(ROOT, "MANIFEST.json"), "w") as f:
        json.dump(man, f, indent=1)
    print("claimed:", sorted(CLAIMED), "pending:", len(na))


if __name__ == "__main__":
    main()
