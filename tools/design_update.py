#!/usr/bin/env python3
"""Rebuild sections 4-9 of DESIGN.md from tools/design_tail.md and the seeded/*/meta.json files."""
import glob
import json
import os
import re

ROOT = os.path.dirname(os.path.dirname(os.path.abspath(__file__)))


def seeded_table():
    rows = ["| id | file | change (added lines) | first run | caught by (quick tier, now) |", "|---|---|---|---|---|"]
    for d in sorted(glob.glob(os.path.join(ROOT, "seeded", "*"))):
        mp = os.path.join(d, "meta.json")
        if not os.path.exists(mp):
            continue
        m = json.load(open(mp))
        diff = open(os.path.join(d, "patch.diff")).read()
        files = sorted(set(re.findall(r"^\+\+\+ b/(\S+)", diff, re.M)))
        added = [l[1:].strip() for l in diff.splitlines() if l.startswith("+") and not l.startswith("+++") and l[1:].strip()
                 and not l[1:].strip().startswith("#")]
        chg = "; ".join(added)[:150].replace("|", "\\|")
        runs = [r for r in m["ran"] if "VERIF_REPO" in r["cmd"]]
        first = "caught" if runs and runs[0]["exit"] == 1 else "MISSED"
        last = runs[-1] if runs else {}
        if last.get("exit") == 1:
            v = (last.get("first_violations") or ["?"])[0]
            mm = re.match(r"violation in (\S+): (.*)", v)
            now = f"{mm.group(1)} — {mm.group(2)[:90]}" if mm else v[:110]
        else:
            now = "**not caught**"
        rows.append(f"| {m['id']} | {', '.join(os.path.basename(f) for f in files)} | `{chg}` | {first} | {now.replace('|', '/')} |")
    return "\n".join(rows)


def fixed_table():
    k = json.load(open(os.path.join(ROOT, "known_findings.json")))
    rows = ["| property | commit | what failed |", "|---|---|---|"]
    for f in k["fixed"]:
        rows.append(f"| {f['property']} | {f['commit']} | {f['what'].replace('|', '/')} |")
    return len(k["fixed"]), "\n".join(rows)


def main():
    p = os.path.join(ROOT, "DESIGN.md")
    s = open(p).read()
    head = s[:s.index("## 4. Findings")]
    tail = open(os.path.join(ROOT, "tools", "design_tail.md")).read()
    extra = ""
    ep = os.path.join(ROOT, "tools", "design_seeded_notes.md")
    if os.path.exists(ep):
        extra = "\n" + open(ep).read()
    tail = tail.replace("SEEDED_TABLE", seeded_table() + extra)
    nfix, ftab = fixed_table()
    tail = tail.replace("FIXED_TABLE", ftab).replace("FIXED_COUNT", str(nfix))
    open(p, "w").write(head + tail)
    print("DESIGN.md rebuilt:", len((head + tail).splitlines()), "lines")


if __name__ == "__main__":
    main()
