#!/usr/bin/env python3
"""promote.py <violation.json> <replays/ID/name.json>: keep a found violation as committed replay file."""
import json, sys
src, dst = sys.argv[1:3]
d = json.load(open(src))
keep = {k: d[k] for k in ("property", "subcheck", "case", "message", "details", "tags") if k in d}
json.dump(keep, open(dst, "w"), indent=1)
print("wrote", dst)
