"""Runner: ./check <ID> [--tier quick|thorough] [--replay FILE] [--only NAME] [--jobs N]

Every property is a module checks/cXX.py exposing
    PROPERTY = "CXX"; RULE = "<how cases are generated, what is non-trivial>"
    SUBCHECKS = [SubCheck(...), ...]
Each sub-check is a Hypothesis @given test (or an exhaustive enumeration) over
JSON-able case dicts; `run(case, rec)` is the executable property and raises
Violation.  The same `run` is used by the plain replay path (no Hypothesis).
"""
import argparse
import re
import importlib
import io
import json
import multiprocessing as mp
import os
import sys
import time
import traceback
import contextlib
import zlib

from .core import (ROOT, Recorder, Violation, HarnessError, jsonable, load_known, case_hash)

LEVEL = "exploration"


def _repo_root():
    return os.path.realpath(os.environ.get("VERIF_REPO", "/repo"))


def _import_cuqi():
    import cuqi  # noqa
    here = os.path.realpath(cuqi.__file__)
    if not here.startswith(_repo_root() + os.sep):
        print(f"HARNESS-ERROR cuqi imported from {here}, expected under {_repo_root()}")
        sys.exit(2)
    return cuqi


class CaseTimeout(BaseException):
    """a single generated case exceeded the wall-clock guard (a library call that does not return): inconclusive, never a violation"""


def _case_limit():
    return float(os.environ.get("VERIF_CASE_LIMIT", "600"))


def raised_in_library(exc):
    """True when the exception originates in library code: walking the traceback from the innermost frame outwards, the
    first frame that belongs to either the repository tree or /verif is a repository frame (so an error raised by numpy
    called from cuqi counts as the library's, one raised by numpy called from a check, or inside a harness callback that
    the library invoked, is the harness')."""
    root = _repo_root() + os.sep
    mine = ROOT + os.sep
    frames = traceback.extract_tb(exc.__traceback__)
    for fr in reversed(frames):
        fn = os.path.realpath(fr.filename)
        if fn.startswith(root):
            return True
        if fn.startswith(mine):
            return False
    return False


def library_exception_as_violation(e):
    tb = traceback.format_exception(type(e), e, e.__traceback__)
    return Violation(f"the library raised {type(e).__name__} on a generated input for which the property requires a result "
                     f"(the pinned version returns one): {str(e)[:200]}", traceback="".join(tb)[-1500:])


def _mix(seed, name, shard):
    return (zlib.crc32(f"{seed}|{name}|{shard}".encode()) ^ (seed * 2654435761)) & 0x7FFFFFFF


def _load_module(pid):
    return importlib.import_module(f"checks.{pid.lower()}")


def _find(mod, name):
    for sc in mod.SUBCHECKS:
        if sc.name == name:
            return sc
    raise HarnessError(f"unknown sub-check {name}")


# ------------------------------------------------------------------ worker

def _linecov_start():
    """development aid (VERIF_LINECOV=<dir>): record which lines of the library each worker executes
    (sys.monitoring, each line reported once) - used by tools/automutate.py to mutate only executed code"""
    d = os.environ.get("VERIF_LINECOV")
    if not d or not hasattr(sys, "monitoring"):
        return None
    root = _repo_root() + os.sep
    hits = set()
    mon = sys.monitoring
    tool = mon.COVERAGE_ID
    try:
        mon.use_tool_id(tool, "verif-linecov")
    except ValueError:
        return None

    def on_line(code, line):
        fn = code.co_filename
        if fn.startswith(root):
            hits.add((fn[len(root):], line))
        return mon.DISABLE
    mon.register_callback(tool, mon.events.LINE, on_line)
    mon.set_events(tool, mon.events.LINE)
    return d, hits


def _linecov_stop(h, name, shard):
    if h is None:
        return
    d, hits = h
    os.makedirs(d, exist_ok=True)
    with open(os.path.join(d, f"{name.replace('/', '_')}-{shard}.json"), "w") as f:
        json.dump(sorted(hits), f)


def _worker(args):
    pid, name, tier, seed, shard, nshards, t_end = args
    out = {"subcheck": name, "shard": shard, "status": "ok"}
    rec = Recorder(name)
    t0 = time.time()
    cov = _linecov_start()
    try:
        with contextlib.redirect_stdout(io.StringIO()), contextlib.redirect_stderr(io.StringIO()):
            _import_cuqi()
            mod = _load_module(pid)
            sc = _find(mod, name)
            fail = _run_subcheck(sc, rec, tier, seed, shard, nshards, t_end)
        if fail is not None:
            out["status"] = "violation"
            out["history"] = jsonable(getattr(_run_subcheck, "last_history", [])[:-1][-2048:])
            out["case"] = jsonable(fail[0])
            out["msg"] = fail[1].msg
            out["details"] = jsonable(fail[1].details)
            out["tags"] = jsonable(fail[2])
    except Exception as e:  # harness problem
        out["status"] = "harness-error"
        out["error"] = f"{type(e).__name__}: {e}"
        out["traceback"] = traceback.format_exc()[-6000:]
    _linecov_stop(cov, name, shard)
    out["rec"] = rec.export()
    out["wall_s"] = time.time() - t0
    return out


def _run_subcheck(sc, rec, tier, seed, shard, nshards, t_end):
    n_total = sc.n[tier]
    state = {"fail": None, "skipped": 0, "history": []}

    def body(case):
        if time.time() > t_end:
            state["skipped"] += 1
            return
        if shard > 0 and sc.enum is None:
            # Hypothesis always generates its all-minimal example first; only shard 0 executes it, the other shards
            # skip it (consistently, by hash) and get one more example instead
            h = case_hash(case)
            if state.get("first") is None:
                state["first"] = h
            if state["first"] == h:
                return
        state["history"].append(case)
        rec.begin(case)
        import signal

        def _alarm(signum, frame):
            raise CaseTimeout()
        old_handler = signal.signal(signal.SIGALRM, _alarm)
        signal.setitimer(signal.ITIMER_REAL, _case_limit())
        try:
            try:
                sc.run(case, rec)
            except CaseTimeout:
                rec.inconc("case_wall_clock_limit")
                return
            except (Violation, HarnessError):
                raise
            except Exception as e:
                if e.__class__.__module__.startswith("hypothesis") or not raised_in_library(e):
                    raise
                raise library_exception_as_violation(e) from None
        except Violation as v:
            if os.environ.get("VERIF_SURVEY"):
                key = "FAIL " + json.dumps(jsonable(rec._tags), sort_keys=True) + " :: " + re.sub(r"[-+]?\d[\d.e+-]*", "#", v.msg)[:110]
                rec.classes[key] = rec.classes.get(key, 0) + 1
                return
            state["fail"] = (case, v, rec._tags)
            rec.frozen = True
            raise
        finally:
            signal.setitimer(signal.ITIMER_REAL, 0)
            signal.signal(signal.SIGALRM, old_handler)

    if sc.enum is not None:
        cases = list(sc.enum(tier))
        mine = cases[shard::nshards]
        for case in mine:
            try:
                body(case)
            except Violation:
                break
        if state["skipped"]:
            rec.inconc("budget_exhausted_cases_skipped")
            rec.inconclusive["budget_exhausted_cases_skipped"] = state["skipped"]
        _run_subcheck.last_history = state["history"]
        return state["fail"]

    import hypothesis
    from hypothesis import given, settings, HealthCheck, Phase, Verbosity
    n = max(1, n_total // nshards) + (1 if shard > 0 else 0)
    if sc.machine is not None:
        from hypothesis.stateful import run_state_machine_as_test
        Machine = sc.machine(rec, tier)
        Machine.failure = None
        phases = [Phase.generate] + ([Phase.shrink] if sc.shrink else [])
        sett = settings(max_examples=n, stateful_step_count=sc.steps[tier], database=None, deadline=None, derandomize=False,
                        report_multiple_bugs=False, print_blob=False, phases=phases, verbosity=Verbosity.quiet,
                        suppress_health_check=list(HealthCheck))
        try:
            run_state_machine_as_test(hypothesis.seed(_mix(seed, sc.name, shard))(Machine), settings=sett)
        except Violation as v:
            rec.frozen = True
            if Machine.failure is None:
                raise HarnessError("stateful machine raised a Violation without recording its trace")
            trace, v2, tags = Machine.failure
            return ({"trace": trace}, v2, tags)
        return None
    phases = [Phase.generate] + ([Phase.shrink] if sc.shrink else [])
    sett = settings(max_examples=n, database=None, deadline=None, derandomize=False,
                    report_multiple_bugs=False, print_blob=False, phases=phases, verbosity=Verbosity.quiet,
                    suppress_health_check=[HealthCheck.too_slow, HealthCheck.data_too_large,
                                           HealthCheck.large_base_example])
    test = hypothesis.seed(_mix(seed, sc.name, shard))(sett(given(sc.strategy(tier))(body)))
    try:
        test()
    except Violation:
        pass
    except hypothesis.errors.Flaky as e:  # a failing case that does not reproduce
        if state["fail"] is None:
            raise HarnessError(f"flaky: {e}")
    if state["skipped"]:
        rec.inconclusive["budget_exhausted_cases_skipped"] = state["skipped"]
    _run_subcheck.last_history = state["history"]
    return state["fail"]


# ------------------------------------------------------------------ plain replay

def replay_case(pid, name, case, exclude_known=False):
    """Run one explicit case through the property, bypassing Hypothesis.
    Returns None if it holds, or the Violation."""
    mod = _load_module(pid)
    sc = _find(mod, name)
    rec = Recorder(name, exclude_known=exclude_known)
    rec.begin(case)
    try:
        with contextlib.redirect_stdout(io.StringIO()), contextlib.redirect_stderr(io.StringIO()):
            sc.run(case, rec)
    except Violation as v:
        return v
    except HarnessError:
        raise
    except Exception as e:
        if raised_in_library(e):
            return library_exception_as_violation(e)
        raise
    return None


def _replay_worker(args):
    pid, name, case = args[:3]
    prefix = args[3] if len(args) > 3 else []
    try:
        _import_cuqi()
        for pc in prefix:      # earlier cases of the same process (a failure may depend on state the library keeps between calls)
            try:
                replay_case(pid, name, pc)
            except Exception:
                pass
        v = replay_case(pid, name, case)
        if v is None:
            return ("ok", None, None)
        return ("violation", v.msg, jsonable(v.details))
    except Exception as e:
        return ("harness-error", f"{type(e).__name__}: {e}", traceback.format_exc()[-4000:])


def _write_replay(pid, name, case, msg, details, seed, tier, tags=None, prefix=None):
    d = os.path.join(os.environ.get("VERIF_VIOL_DIR") or os.path.join(ROOT, "violations"), pid)
    os.makedirs(d, exist_ok=True)
    path = os.path.join(d, f"{name.replace('/', '_')}-seed{seed}-{case_hash(case)}.json")
    with open(path, "w") as f:
        doc = {"property": pid, "subcheck": name, "case": case, "message": msg,
               "details": details, "tags": tags, "seed": seed, "tier": tier,
               "repo": _repo_root()}
        if prefix:
            doc["prefix"] = prefix      # cases to run first in the same process (library state kept between calls)
        json.dump(doc, f, indent=1)
    return path


# ------------------------------------------------------------------ main

def main(argv=None):
    ap = argparse.ArgumentParser()
    ap.add_argument("property")
    ap.add_argument("--tier", default=os.environ.get("VERIF_TIER", "quick"))
    ap.add_argument("--replay")
    ap.add_argument("--only")
    ap.add_argument("--jobs", type=int, default=int(os.environ.get("VERIF_JOBS", "16")))
    ap.add_argument("--no-evidence", action="store_true")
    a = ap.parse_args(argv)
    pid = a.property.upper()
    tier = a.tier if a.tier in ("quick", "thorough") else "quick"
    try:
        seed = int(os.environ.get("VERIF_SEED", "1"))
    except ValueError:
        seed = 1
    t0 = time.time()
    try:
        _import_cuqi()
        mod = _load_module(pid)
    except SystemExit:
        raise
    except Exception:
        print("HARNESS-ERROR import failed")
        traceback.print_exc()
        return 2

    ctx = mp.get_context("fork")

    # ---------------- explicit replay
    if a.replay:
        with open(a.replay) as f:
            rp = json.load(f)
        with ctx.Pool(1) as pool:
            st, msg, det = pool.apply(_replay_worker, ((pid, rp["subcheck"], rp["case"], rp.get("prefix") or []),))
        if st == "violation":
            print(f"replay: {rp['subcheck']}: {msg}")
            print(f"VIOLATION property={pid} replay={a.replay}")
            return 1
        if st == "harness-error":
            print(f"HARNESS-ERROR replay {msg}\n{det}")
            return 2
        print(f"replay: {rp['subcheck']}: property holds on this case")
        return 0

    subchecks = [sc for sc in mod.SUBCHECKS if (not a.only or a.only in sc.name)]
    vdir = os.path.join(os.environ.get("VERIF_VIOL_DIR") or os.path.join(ROOT, "violations"), pid)
    if os.path.isdir(vdir) and not a.only:
        for fn in os.listdir(vdir):
            os.remove(os.path.join(vdir, fn))
    violations = []
    harness_errors = []
    known_lines = []

    # ---------------- replay tier: known findings and committed regression cases
    known = load_known()
    replay_jobs = []
    for kf in known["findings"]:
        if kf["property"] != pid:
            continue
        if a.only and a.only not in kf["subcheck"]:
            continue
        p = os.path.join(ROOT, kf["replay"])
        with open(p) as f:
            rp = json.load(f)
        replay_jobs.append(("known", kf, p, rp))
    rdir = os.path.join(ROOT, "replays", pid)
    if os.path.isdir(rdir):
        for fn in sorted(os.listdir(rdir)):
            if fn.startswith("reg_") and fn.endswith(".json"):
                p = os.path.join(rdir, fn)
                with open(p) as f:
                    rp = json.load(f)
                if a.only and a.only not in rp["subcheck"]:
                    continue
                replay_jobs.append(("reg", None, p, rp))
    n_replayed = 0
    if replay_jobs:
        with ctx.Pool(min(a.jobs, len(replay_jobs)), maxtasksperchild=1) as pool:
            res = pool.map(_replay_worker, [(pid, rp["subcheck"], rp["case"]) for _, _, _, rp in replay_jobs], chunksize=1)
        for (kind, kf, p, rp), (st, msg, det) in zip(replay_jobs, res):
            n_replayed += 1
            if st == "harness-error":
                harness_errors.append(f"replay {p}: {msg}\n{det}")
            elif kind == "known":
                if st == "violation":
                    known_lines.append(f"KNOWN-FINDING: property={pid} {kf['id']}: {kf['what']}")
                else:
                    known_lines.append(f"STALE-FINDING: property={pid} {kf['id']} no longer reproduces ({kf['replay']})")
            else:
                if st == "violation":
                    violations.append((rp["subcheck"], p, msg))

    # ---------------- search tier
    budget = float(os.environ.get("VERIF_BUDGET_S", "1500" if tier == "quick" else "14400"))
    t_end = time.time() + budget
    jobs = []
    for sc in subchecks:
        ns = max(1, sc.shards.get(tier, 1))
        for sh in range(ns):
            jobs.append((pid, sc.name, tier, seed, sh, ns, t_end))
    results = []
    if jobs:
        with ctx.Pool(min(a.jobs, len(jobs)), maxtasksperchild=1) as pool:
            for r in pool.imap_unordered(_worker, jobs, chunksize=1):
                results.append(r)

    per_sub = {}
    for r in sorted(results, key=lambda r: (r["subcheck"], r["shard"])):
        ps = per_sub.setdefault(r["subcheck"], {"evaluations": 0, "nontrivial": set(), "classes": {},
                                                "excluded": {}, "inconclusive": {}, "samples": [],
                                                "notes": {}, "wall_s": 0.0, "status": "ok"})
        rec = r["rec"]
        ps["evaluations"] += rec["evaluations"]
        ps["nontrivial"].update(rec["nontrivial"])
        for k in ("classes", "excluded", "inconclusive"):
            for kk, vv in rec[k].items():
                ps[k][kk] = ps[k].get(kk, 0) + vv
        if len(ps["samples"]) < 2:
            ps["samples"].extend(rec["samples"][: 2 - len(ps["samples"])])
        ps["notes"].update(rec["notes"])
        ps["wall_s"] = max(ps["wall_s"], r["wall_s"])
        if r["status"] == "violation":
            ps["status"] = "violation"
            # confirm through the plain replay path in a fresh process
            with ctx.Pool(1) as pool:
                st, msg, det = pool.apply(_replay_worker, ((pid, r["subcheck"], r["case"]),))
            prefix = []
            if st != "violation" and r.get("history"):
                # not reproducible from the single case: the library may keep state between calls (class-level caches, module
                # globals). Replay with the shortest suffix of the cases this process ran before that reproduces it.
                hist = r["history"]
                for klen in (1, 4, 16, 64, 256, len(hist)):
                    cand = hist[-klen:]
                    with ctx.Pool(1) as pool:
                        st2, msg2, det2 = pool.apply(_replay_worker, ((pid, r["subcheck"], r["case"], cand),))
                    if st2 == "violation":
                        st, prefix = st2, cand
                        break
                    if klen >= len(hist):
                        break
            path = _write_replay(pid, r["subcheck"], r["case"], r["msg"], r["details"], seed, tier, r.get("tags"), prefix=prefix)
            if st == "violation":
                violations.append((r["subcheck"], path, r["msg"] + (f" [needs the {len(prefix)} preceding case(s) of the same process: state kept by the library between calls]" if prefix else "")))
            else:
                harness_errors.append(f"{r['subcheck']}: failure did not reproduce through plain replay ({st}: {msg}); case at {path}")
        elif r["status"] == "harness-error":
            ps["status"] = "harness-error"
            harness_errors.append(f"{r['subcheck']} shard {r['shard']}: {r['error']}\n{r['traceback']}")

    # ---------------- evidence
    wall = time.time() - t0
    evaluations = sum(ps["evaluations"] for ps in per_sub.values())
    distinct = sum(len(ps["nontrivial"]) for ps in per_sub.values())
    samples = []
    for name in sorted(per_sub):
        samples.extend(per_sub[name]["samples"][:2])
    excluded = {}
    inconclusive = {}
    for name, ps in per_sub.items():
        for k, v in ps["excluded"].items():
            excluded[k] = excluded.get(k, 0) + v
        for k, v in ps["inconclusive"].items():
            inconclusive[f"{name}:{k}"] = v
    exhaustive_subs = [sc.name for sc in subchecks if sc.exhaustive]
    ev = {
        "property_id": pid, "tier": tier, "seed": seed, "level": LEVEL,
        "coverage": {
            "evaluations": evaluations,
            "distinct_nontrivial": distinct,
            "rule": getattr(mod, "RULE", ""),
            "samples": samples,
            "exhaustive": False,
            "exhaustive_subchecks": exhaustive_subs,
            "replayed_files": n_replayed,
            "excluded_known": excluded,
            "inconclusive": inconclusive,
            "per_subcheck": {name: {"evaluations": ps["evaluations"], "distinct_nontrivial": len(ps["nontrivial"]),
                                    "classes": _top(ps["classes"]), "status": ps["status"],
                                    "wall_s": round(ps["wall_s"], 2), "notes": ps["notes"]}
                             for name, ps in sorted(per_sub.items())},
        },
        "assumptions": getattr(mod, "ASSUMPTIONS", []),
        "wall_s": round(wall, 2),
        "violations": len(violations),
        "known_findings_reported": [l for l in known_lines if l.startswith("KNOWN")],
    }
    if not a.no_evidence and not a.only:
        os.makedirs(os.path.join(ROOT, "evidence"), exist_ok=True)
        evp = os.path.join(ROOT, "evidence", f"{pid}.json")
        with open(evp, "w") as f:
            json.dump(ev, f, indent=1)
        _validate(evp)

    # ---------------- report
    for name, ps in sorted(per_sub.items()):
        print(f"  {name:42s} {ps['status']:10s} cases={ps['evaluations']:6d} nontrivial={len(ps['nontrivial']):6d} "
              f"excluded={sum(ps['excluded'].values()):5d} inconclusive={sum(ps['inconclusive'].values()):4d} {ps['wall_s']:.1f}s")
    for l in known_lines:
        print(l)
    if os.environ.get("VERIF_SURVEY"):
        for name, ps in sorted(per_sub.items()):
            for k, v in sorted(ps["classes"].items()):
                if k.startswith("FAIL"):
                    print(f"  SURVEY {name} x{v}: {k}")
    if os.environ.get("VERIF_CLASSES"):
        for name, ps in sorted(per_sub.items()):
            for k, v in sorted(ps["classes"].items(), key=lambda kv: -kv[1]):
                print(f"  CLASS {name} x{v}: {k}")
    print(f"{pid} tier={tier} seed={seed} evaluations={evaluations} distinct_nontrivial={distinct} wall={wall:.1f}s")
    if harness_errors:
        for h in harness_errors:
            print("HARNESS-ERROR", h)
    for name, path, msg in violations:
        print(f"violation in {name}: {msg}")
        print(f"VIOLATION property={pid} replay={path}")
    if violations:
        return 1
    if harness_errors:
        return 2
    return 0


def _top(classes, k=40):
    items = sorted(classes.items(), key=lambda kv: -kv[1])
    d = dict(items[:k])
    if len(items) > k:
        d["(other classes)"] = sum(v for _, v in items[k:])
    return d


def _validate(path):
    try:
        import jsonschema
    except Exception:
        return
    sp = "/root/.vp/EVIDENCE.schema.json"
    if not os.path.exists(sp):
        sp = os.path.join(ROOT, "vlib", "EVIDENCE.schema.json")
        if not os.path.exists(sp):
            return
    with open(sp) as f:
        schema = json.load(f)
    with open(path) as f:
        ev = json.load(f)
    try:
        jsonschema.validate(ev, schema)
    except jsonschema.ValidationError as e:
        print("HARNESS-ERROR evidence does not validate:", e.message)


if __name__ == "__main__":
    sys.exit(main())
