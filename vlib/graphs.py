"""Hierarchical model graphs (C01, C09, C10, C11): JSON-able spec -> cuqi densities + independent reference log-densities.

Grammar: 0-3 scalar hyper-parameters (Gamma / InverseGamma / Uniform / Beta), 1-2 latent vectors (Gaussian in any
parameterisation, GMRF, LMRF, CMRF, Laplace, Normal; hyper-parameters enter through callables whose argument names are
the hyper-parameter names), 1-3 data nodes (Gaussian / Normal / Laplace / Lognormal whose mean/location is a LinearModel
(matrix or function pair), a non-linear Model with Jacobian, or a plain callable; noise level fixed or a hyper-parameter).
"""
import numpy as np
import scipy.stats as sps
from hypothesis import strategies as st

from . import gen

HYPER_NAMES = ["d", "l", "s"]
LATENT_NAMES = ["x", "z"]
DATA_NAMES = ["y", "w", "v"]


# ----------------------------------------------------------------------------- strategies

@st.composite
def graph_spec(draw, max_hypers=3, max_latents=2, max_data=3, latent_fams=None, data_fams=None, max_dim=5, hyper_fams=None, allow_far=False):
    nh = draw(st.integers(0, max_hypers))
    nl = draw(st.integers(1, max_latents))
    nd = draw(st.integers(1, max_data))
    hypers = []
    for i in range(nh):
        fam = draw(st.sampled_from(hyper_fams or ["Gamma", "Gamma", "InverseGamma", "Uniform", "Beta"]))
        h = {"name": HYPER_NAMES[i], "fam": fam, "a": draw(gen.logpos(-0.5, 0.7)), "b": draw(gen.logpos(-0.5, 0.7))}
        hypers.append(h)
    free_hypers = [h["name"] for h in hypers]
    latents = []
    for i in range(nl):
        n = draw(st.integers(2, max_dim))
        if i == 1 and draw(st.booleans()):
            n = latents[0]["dim"]       # two unknowns of the same size (one forward-model object may then serve both)
        fam = draw(st.sampled_from(latent_fams or ["Gaussian", "Gaussian", "GMRF", "LMRF", "CMRF", "Laplace", "Normal", "Lognormal"]))
        hy = draw(st.sampled_from(free_hypers + [None])) if free_hypers else None
        lat = {"name": LATENT_NAMES[i], "dim": n, "fam": fam, "hyper": hy, "mean": draw(gen.vec(n, -1, 1)),
               "level": draw(gen.logpos(-0.5, 0.5))}
        if fam == "Gaussian":
            lat["form"] = draw(st.sampled_from(["cov", "prec", "sqrtprec", "sqrtcov"]))
            lat["R"] = draw(gen.mat(n, n, -0.5, 0.5))
        if fam in ("GMRF", "LMRF", "CMRF"):
            lat["bc"] = draw(st.sampled_from(["zero", "zero", "periodic", "neumann"])) if fam != "GMRF" else "zero"
            lat["order"] = draw(st.sampled_from([1, 2])) if fam == "GMRF" else 1
        latents.append(lat)
    data = []
    for i in range(nd):
        lat = draw(st.sampled_from(latents))
        m = draw(st.integers(1, max_dim))
        fam = draw(st.sampled_from(data_fams or ["Gaussian", "Gaussian", "Gaussian", "Normal", "Laplace", "Lognormal"]))
        hy = draw(st.sampled_from(free_hypers + [None, None])) if free_hypers else None
        node = {"name": DATA_NAMES[i], "dim": m, "latent": lat["name"], "fam": fam, "hyper": hy,
                "model": draw(st.sampled_from(["linear_matrix", "linear_func", "nonlinear", "callable"])),
                "A": draw(gen.mat(m, lat["dim"], -1, 1)), "cc": draw(st.sampled_from([0.3, 1.0])),
                "level": draw(gen.logpos(-0.5, 0.5)), "form": draw(st.sampled_from(["cov", "prec"]))}
        # a noise level that depends on two hyper-parameters through one callable (exercises partial conditioning)
        node["hyper2"] = None
        if fam == "Gaussian" and hy is not None and len(free_hypers) >= 2 and draw(st.booleans()):
            node["hyper2"] = draw(st.sampled_from([h for h in free_hypers if h != hy]))
        data.append(node)
    if len(data) >= 2 and len(latents) == 2 and latents[0]["dim"] == latents[1]["dim"] and draw(st.booleans()):
        # ONE LinearModel object used for two data nodes that observe two different unknowns (y ~ N(A x), w ~ N(A z))
        data[0].update(latent=latents[0]["name"], model="linear_matrix", shared_base=True)
        data[1].update(latent=latents[1]["name"], model="linear_matrix", shared_base=True, A=data[0]["A"], dim=data[0]["dim"])
    spec = {"hypers": hypers, "latents": latents, "data": data}
    # values: a complete admissible assignment
    vals = {}
    for h in hypers:
        u = draw(st.floats(0.1, 0.9))
        vals[h["name"]] = [u if h["fam"] == "Beta" else (u * h["b"] if h["fam"] == "Uniform" else 0.2 + 3 * u)]
    for lat in latents:
        v = draw(gen.vec(lat["dim"], -1.5, 1.5))
        vals[lat["name"]] = [float(np.exp(t)) for t in v] if lat["fam"] == "Lognormal" else v
    for node in data:
        v = draw(gen.vec(node["dim"], -1.5, 1.5))
        vals[node["name"]] = [float(np.exp(t)) for t in v] if node["fam"] == "Lognormal" else v
    # a latent far from the origin relative to its spread (mean 4.2e6, standard deviation ~1e-3: coordinates, time stamps); its data
    # nodes get values near their own mean so that all factors stay in their bulk
    lat0 = latents[0]
    users0 = [nd_ for nd_ in data if nd_["latent"] == lat0["name"]]
    if lat0["fam"] in ("Gaussian", "Normal") and all(nd_["fam"] in ("Gaussian", "Normal", "Laplace") for nd_ in users0) \
            and allow_far and draw(st.sampled_from([False, False, False, False, True])):
        lat0["mean"] = [4.2e6 + t for t in lat0["mean"]]
        lat0["level"] = lat0["level"] * 1e-6
        hv = vals[lat0["hyper"]][0] if lat0["hyper"] else 1.0
        xfar = np.array(lat0["mean"]) + np.sqrt(lat0["level"] / hv) * np.array(draw(gen.vec(lat0["dim"], -1.5, 1.5)))
        vals[lat0["name"]] = [float(t) for t in xfar]
        for nd_ in users0:
            mu_ = forward_fn(nd_)(xfar)
            vals[nd_["name"]] = [float(t) for t in mu_ + np.sqrt(nd_["level"]) * np.array(draw(gen.vec(nd_["dim"], -1.5, 1.5)))]
        spec["far_latent"] = True
    spec["values"] = vals
    # a hyper-parameter may carry the very name of the attribute it feeds (prec=lambda prec: ..., scale=lambda scale: ...)
    for h in hypers:
        if not draw(st.sampled_from([False, False, True])):
            continue
        users = [nd for nd in latents + data if nd.get("hyper") == h["name"] or nd.get("hyper2") == h["name"]]
        if len(users) != 1 or users[0].get("hyper2"):
            continue
        nd = users[0]
        fam = nd["fam"]
        attr = {"Gaussian": nd.get("form"), "GMRF": "prec", "LMRF": "scale", "CMRF": "scale", "Laplace": "scale", "Normal": "std",
                "Lognormal": "cov"}.get(fam)
        taken = set(vals) | {"mean", "location"}
        # (a name that is also an attribute of ANOTHER density of the joint is refused by the library when the joint is
        # conditioned - "the mutable variable ... is not a conditioning variable" - so such names are not generated)
        ATTRS = {"Gaussian": {"cov", "prec", "sqrtcov", "sqrtprec"}, "GMRF": {"prec"}, "LMRF": {"scale"}, "CMRF": {"scale"}, "Laplace": {"scale"},
                 "Normal": {"std"}, "Lognormal": {"cov"}, "Gamma": {"shape", "rate"}, "InverseGamma": {"shape", "scale"}, "Uniform": {"low", "high"},
                 "Beta": {"alpha", "beta"}}
        others = [o for o in latents + data + hypers if o is not nd]
        if attr is None or attr in taken or any(attr in ATTRS.get(o["fam"], set()) for o in others):
            continue
        vals[attr] = vals.pop(h["name"])
        nd["hyper"] = attr
        h["name"] = attr
    return spec


def var_names(spec):
    """all variable names in density order (data, latents, hypers)"""
    return [n["name"] for n in spec["data"]] + [n["name"] for n in spec["latents"]] + [n["name"] for n in spec["hypers"]]


def var_dims(spec):
    d = {n["name"]: n["dim"] for n in spec["data"] + spec["latents"]}
    d.update({h["name"]: 1 for h in spec["hypers"]})
    return d


# ----------------------------------------------------------------------------- pieces

def _latent_R(lat):
    n = lat["dim"]
    return np.eye(n) + np.triu(np.array(lat["R"], dtype=float), 1)  # upper triangular, unit diagonal: R^T R SPD


def forward_fn(node):
    A = np.array(node["A"], dtype=float)
    cc = node["cc"]
    if node["model"] == "nonlinear":
        return lambda x: A @ x + cc * np.tanh(A @ x)
    return lambda x: A @ x


def make_model(node, cache=None):
    import cuqi
    A = np.array(node["A"], dtype=float)
    cc = node["cc"]
    lat = node["latent"]
    m, n = A.shape
    if node["model"] == "linear_matrix" and node.get("shared_base") and cache is not None:
        if "shared_base" not in cache:
            cache["shared_base"] = cuqi.model.LinearModel(A)
        return _rename(cache["shared_base"], lat)
    if node["model"] == "linear_matrix":
        return _rename(cuqi.model.LinearModel(A), lat)
    if node["model"] == "linear_func":
        return cuqi.model.LinearModel(gen.named_callable([lat], lambda x: A @ x), lambda y: A.T @ y, range_geometry=m, domain_geometry=n)
    if node["model"] == "nonlinear":
        f = lambda x: A @ x + cc * np.tanh(A @ x)
        J = lambda x: A + cc * (1 - np.tanh(A @ x) ** 2)[:, None] * A
        return cuqi.model.Model(gen.named_callable([lat], f), m, n, jacobian=gen.named_callable([lat], J))
    return gen.named_callable([lat], lambda x: A @ x)


def _rename(model, name):
    """use the public route: apply the model to a distribution of that name"""
    import cuqi
    dummy = cuqi.distribution.Gaussian(np.zeros(model.domain_dim), 1.0, name=name)
    return model(dummy)


def _hy(hy, kind, lev, R=None):
    """callable of the hyper-parameter `hy` (argument name = hy); values bound at creation (no late binding)"""
    if kind == "lev_over_h":
        return gen.named_callable([hy], lambda h: lev / h)
    if kind == "h_over_lev":
        return gen.named_callable([hy], lambda h: h / lev)
    # (|h|: a random-walk proposal for the hyper-parameter may be negative; the hyper-prior then gives -inf, but a NaN matrix
    # handed to Gaussian makes numpy's rank computation raise LinAlgError before that - a user writes the callable, so the
    # harness writes one that stays finite)
    if kind == "sqrt_lev_over_h":
        return gen.named_callable([hy], lambda h: np.sqrt(lev / np.abs(h)))
    if kind == "sqrt_h_over_lev_R":
        return gen.named_callable([hy], lambda h: np.sqrt(np.abs(h) / lev) * R)
    raise ValueError(kind)


def _data_density(node, cache=None):
    import cuqi
    D = cuqi.distribution
    m = node["dim"]
    mean = make_model(node, cache)
    hy, lev, name, fam = node["hyper"], node["level"], node["name"], node["fam"]
    if fam == "Gaussian":
        h2 = node.get("hyper2")
        if hy is None:
            kw = {"cov": lev} if node["form"] == "cov" else {"prec": 1.0 / lev}
        elif h2 is not None:
            kw = {"cov": gen.named_callable([hy, h2], lambda a, b: lev / (a * b))} if node["form"] == "cov" else \
                 {"prec": gen.named_callable([hy, h2], lambda a, b: (a * b) / lev)}
        else:
            kw = {"cov": _hy(hy, "lev_over_h", lev)} if node["form"] == "cov" else {"prec": _hy(hy, "h_over_lev", lev)}
        return D.Gaussian(mean, **kw, geometry=m, name=name)
    if fam == "Normal":
        return D.Normal(mean, np.sqrt(lev) if hy is None else _hy(hy, "sqrt_lev_over_h", lev), geometry=m, name=name)
    if fam == "Laplace":
        return D.Laplace(mean, lev if hy is None else _hy(hy, "lev_over_h", lev), geometry=m, name=name)
    # (a Lognormal whose mean and covariance are both conditional cannot be constructed - its inner Gaussian gets no geometry -
    # so the data-node Lognormal keeps a constant covariance; the latent Lognormal below carries the hyper-dependent one)
    return D.Lognormal(mean, lev * np.eye(m), geometry=m, name=name)


def _latent_density(lat):
    import cuqi
    D = cuqi.distribution
    n, hy, lev, fam, name = lat["dim"], lat["hyper"], lat["level"], lat["fam"], lat["name"]
    mean = np.array(lat["mean"], dtype=float)
    if fam == "Gaussian":
        R = _latent_R(lat)
        form = lat["form"]
        if form == "cov":
            arg = lev if hy is None else _hy(hy, "lev_over_h", lev)
        elif form == "prec":
            arg = 1 / lev if hy is None else _hy(hy, "h_over_lev", lev)
        elif form == "sqrtprec":
            arg = R / np.sqrt(lev) if hy is None else _hy(hy, "sqrt_h_over_lev_R", lev, R)
        else:
            arg = np.sqrt(lev) if hy is None else _hy(hy, "sqrt_lev_over_h", lev)
        return D.Gaussian(mean, **{form: arg}, geometry=n, name=name)
    if fam == "GMRF":
        return D.GMRF(mean, 1 / lev if hy is None else _hy(hy, "h_over_lev", lev), bc_type=lat["bc"], order=lat["order"], geometry=n, name=name)
    if fam in ("LMRF", "CMRF"):
        return getattr(D, fam)(mean, lev if hy is None else _hy(hy, "lev_over_h", lev), bc_type=lat["bc"], geometry=n, name=name)
    if fam == "Laplace":
        return D.Laplace(mean, lev if hy is None else _hy(hy, "lev_over_h", lev), geometry=n, name=name)
    if fam == "Lognormal":
        # matrix-valued covariance, constant or depending on a hyper-parameter
        cov = lev * np.eye(n) if hy is None else gen.named_callable([hy], (lambda lev, n: (lambda h: (lev / h) * np.eye(n)))(lev, n))
        return D.Lognormal(mean, cov, geometry=n, name=name)
    return D.Normal(mean, np.sqrt(lev) if hy is None else _hy(hy, "sqrt_lev_over_h", lev), geometry=n, name=name)


def _hyper_density(h):
    import cuqi
    D = cuqi.distribution
    if h["fam"] == "Gamma":
        return D.Gamma(h["a"], h["b"], name=h["name"])
    if h["fam"] == "InverseGamma":
        return D.InverseGamma(h["a"], 0.0, h["b"], name=h["name"])
    if h["fam"] == "Uniform":
        return D.Uniform(0.0, h["b"], name=h["name"])
    return D.Beta(h["a"], h["b"], name=h["name"])


def build(spec):
    """Return list of cuqi densities in order (data..., latents..., hypers...)."""
    cache = {}
    return [_data_density(n, cache) for n in spec["data"]] + [_latent_density(l) for l in spec["latents"]] + \
        [_hyper_density(h) for h in spec["hypers"]]


# ----------------------------------------------------------------------------- reference log-density

def _ref_D(n, bc, order):
    from checks.c20 import ref_D
    return ref_D(n, bc, order)


def ref_factor_logpdf(spec, name, values):
    """reference normalised log-density of the factor that defines variable `name`, all parameters resolved from `values`"""
    v = {k: np.array(val, dtype=float) for k, val in values.items()}
    for node in spec["data"]:
        if node["name"] != name:
            continue
        mu = forward_fn(node)(v[node["latent"]])
        lev = node["level"] / (float(v[node["hyper"]][0]) if node["hyper"] else 1.0)  # variance-like level
        if node.get("hyper2"):
            lev = lev / float(v[node["hyper2"]][0])
        y = v[name]
        fam = node["fam"]
        if fam == "Gaussian":
            return float(np.sum(sps.norm.logpdf(y, mu, np.sqrt(lev))))
        if fam == "Normal":
            return float(np.sum(sps.norm.logpdf(y, mu, np.sqrt(lev))))
        if fam == "Laplace":
            return float(np.sum(sps.laplace.logpdf(y, mu, lev)))
        return float(np.sum(sps.norm.logpdf(np.log(y), mu, np.sqrt(node["level"]))) - np.sum(np.log(y)))
    for lat in spec["latents"]:
        if lat["name"] != name:
            continue
        n = lat["dim"]
        x = v[name]
        mean = np.array(lat["mean"], dtype=float)
        hv = float(v[lat["hyper"]][0]) if lat["hyper"] else 1.0
        lev = lat["level"] / hv
        fam = lat["fam"]
        r = x - mean
        if fam == "Gaussian":
            if lat["form"] == "sqrtprec":
                R = _latent_R(lat)
                P = (R.T @ R) / lev
                return float(-0.5 * r @ P @ r + 0.5 * np.linalg.slogdet(P)[1] - 0.5 * n * np.log(2 * np.pi))
            return float(np.sum(sps.norm.logpdf(x, mean, np.sqrt(lev))))
        if fam == "Normal":
            return float(np.sum(sps.norm.logpdf(x, mean, np.sqrt(lev))))
        if fam == "Laplace":
            return float(np.sum(sps.laplace.logpdf(x, mean, lev)))
        if fam == "Lognormal":
            return float(np.sum(sps.norm.logpdf(np.log(x), mean, np.sqrt(lev))) - np.sum(np.log(x)))
        if fam == "GMRF":
            Dm = _ref_D(n, lat["bc"], lat["order"])
            P = Dm.T @ Dm
            delta = 1.0 / lev
            return float(0.5 * (n * np.log(delta / (2 * np.pi)) + np.linalg.slogdet(P)[1]) - 0.5 * delta * r @ P @ r)
        Dm = _ref_D(n, lat["bc"], 1)
        dvec = Dm @ r
        if fam == "LMRF":
            return float(-len(dvec) * np.log(2 * lev) - np.sum(np.abs(dvec)) / lev)
        return float(np.sum(np.log(lev / np.pi) - np.log(dvec ** 2 + lev ** 2)))
    for h in spec["hypers"]:
        if h["name"] != name:
            continue
        t = float(v[name][0])
        if h["fam"] == "Gamma":
            return float(sps.gamma.logpdf(t, h["a"], scale=1 / h["b"]))
        if h["fam"] == "InverseGamma":
            return float(sps.invgamma.logpdf(t, h["a"], loc=0.0, scale=h["b"]))
        if h["fam"] == "Uniform":
            return float(-np.log(h["b"])) if 0 <= t <= h["b"] else -np.inf
        return float(sps.beta.logpdf(t, h["a"], h["b"]))
    raise KeyError(name)


def ref_joint_logd(spec, values):
    return float(sum(ref_factor_logpdf(spec, name, values) for name in var_names(spec)))


def value_of(spec, name):
    v = np.array(spec["values"][name], dtype=float)
    return v if var_dims(spec)[name] > 1 or name in [n["name"] for n in spec["data"] + spec["latents"]] else float(v[0])
