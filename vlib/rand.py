"""Interposed random streams.

All randomness in cuqi is drawn through `np.random.<fn>` module attributes looked up at call time or
through an `rng` argument.  `ScriptedRNG` is a duck-typed generator whose draws come from typed queues;
`patched_global` swaps the np.random module attributes for the methods of such an object.
"""
import contextlib
import numpy as np

from .core import HarnessError

_FUNCS = ["randn", "standard_normal", "normal", "rand", "uniform", "random", "exponential", "gamma", "laplace"]


class ScriptedRNG:
    """Queues: 'normal' feeds randn/standard_normal/normal(loc,scale) (returns loc + scale*e);
    'uniform' feeds rand/uniform/random.  A queue entry is a flat list of floats consumed in C order.
    When a queue is exhausted the fallback (a seeded RandomState) is used if given, else HarnessError."""

    def __init__(self, normal=None, uniform=None, fallback_seed=None, record_only=False, exponential=None):
        self.q = {"normal": list(normal or []), "uniform": list(uniform or []), "exponential": list(exponential or [])}
        self.fallback = np.random.RandomState(fallback_seed) if fallback_seed is not None else None
        self.calls = []
        self.record_only = record_only

    def _take(self, kind, shape):
        n = int(np.prod(shape)) if shape != () else 1
        q = self.q[kind]
        if self.record_only or len(q) < n:
            if self.fallback is None:
                raise HarnessError(f"scripted {kind} stream exhausted (need {n}, have {len(q)})")
            vals = self.fallback.standard_normal(n) if kind == "normal" else self.fallback.random_sample(n)
        else:
            vals = np.array(q[:n], dtype=float)
            del q[:n]
        return vals.reshape(shape) if shape != () else float(vals[0])

    @staticmethod
    def _shape(args, size=None):
        if size is not None:
            return tuple(size) if hasattr(size, "__len__") else (int(size),)
        if len(args) == 1 and hasattr(args[0], "__len__"):
            return tuple(args[0])
        return tuple(int(a) for a in args)

    # normal type
    def randn(self, *args):
        self.calls.append(("randn", args))
        return self._take("normal", self._shape(args))

    def standard_normal(self, size=None):
        self.calls.append(("standard_normal", size))
        return self._take("normal", self._shape((), size) if size is not None else ())

    def normal(self, loc=0.0, scale=1.0, size=None):
        self.calls.append(("normal", size))
        if size is None:
            shp = np.broadcast(np.asarray(loc), np.asarray(scale)).shape
        else:
            shp = self._shape((), size)
        return np.asarray(loc) + np.asarray(scale) * self._take("normal", shp)

    # uniform type
    def rand(self, *args):
        self.calls.append(("rand", args))
        return self._take("uniform", self._shape(args))

    def random(self, size=None):
        self.calls.append(("random", size))
        return self._take("uniform", self._shape((), size) if size is not None else ())

    def uniform(self, low=0.0, high=1.0, size=None):
        self.calls.append(("uniform", size))
        if size is None:
            shp = np.broadcast(np.asarray(low), np.asarray(high)).shape
        else:
            shp = self._shape((), size)
        return np.asarray(low) + (np.asarray(high) - np.asarray(low)) * self._take("uniform", shp)

    # recorded pass-through draws (need a fallback)
    def gamma(self, shape, scale=1.0, size=None):
        self.calls.append(("gamma", {"shape": shape, "scale": scale, "size": size}))
        if self.fallback is None:
            raise HarnessError("gamma draw without fallback stream")
        return self.fallback.gamma(shape, scale, size)

    def exponential(self, scale=1.0, size=None):
        self.calls.append(("exponential", {"scale": scale, "size": size}))
        n = 1 if size is None else int(np.prod(size))
        if not self.record_only and len(self.q["exponential"]) >= n:
            vals = np.array(self.q["exponential"][:n], dtype=float) * scale
            del self.q["exponential"][:n]
            return float(vals[0]) if size is None else vals.reshape(size if hasattr(size, "__len__") else (size,))
        if self.fallback is None:
            raise HarnessError("exponential draw without fallback stream")
        return self.fallback.exponential(scale, size)

    def laplace(self, loc=0.0, scale=1.0, size=None):
        self.calls.append(("laplace", {"size": size}))
        if self.fallback is None:
            raise HarnessError("laplace draw without fallback stream")
        return self.fallback.laplace(loc, scale, size)


@contextlib.contextmanager
def patched_global(rng):
    """Replace the np.random module-level functions used by cuqi with the methods of `rng`."""
    saved = {f: getattr(np.random, f) for f in _FUNCS}
    try:
        for f in _FUNCS:
            setattr(np.random, f, getattr(rng, f))
        yield rng
    finally:
        for f, v in saved.items():
            setattr(np.random, f, v)
