"""Core data types shared by all checks: Violation, Recorder, SubCheck, known findings."""
import hashlib
import json
import os
from collections import Counter
from dataclasses import dataclass, field
from typing import Callable, Optional

import numpy as np

ROOT = os.path.dirname(os.path.dirname(os.path.abspath(__file__)))


class Violation(Exception):
    """The property is violated by the case being executed."""

    def __init__(self, msg, **details):
        super().__init__(msg)
        self.msg = msg
        self.details = details


class HarnessError(Exception):
    """The harness (generator, oracle, script) is wrong; never reported as a violation."""


def jsonable(x):
    """Convert numpy containers to plain python for JSON; floats keep repr round trip."""
    if isinstance(x, dict):
        return {str(k): jsonable(v) for k, v in x.items()}
    if isinstance(x, (list, tuple)):
        return [jsonable(v) for v in x]
    if isinstance(x, np.ndarray):
        return jsonable(x.tolist())
    if isinstance(x, (np.floating,)):
        return float(x)
    if isinstance(x, (np.integer,)):
        return int(x)
    if isinstance(x, (np.bool_,)):
        return bool(x)
    if isinstance(x, complex):
        return [x.real, x.imag]
    if isinstance(x, float):
        if x != x:
            return "nan"
        if x in (float("inf"), float("-inf")):
            return "inf" if x > 0 else "-inf"
        return x
    if isinstance(x, (int, str, bool)) or x is None:
        return x
    return repr(x)


def case_hash(case):
    s = json.dumps(jsonable(case), sort_keys=True)
    return hashlib.sha1(s.encode()).hexdigest()[:16]


# --------------------------------------------------------------------------- known findings

_KNOWN = None


def load_known():
    global _KNOWN
    if _KNOWN is None:
        p = os.path.join(ROOT, "known_findings.json")
        if os.path.exists(p):
            with open(p) as f:
                _KNOWN = json.load(f)
        else:
            _KNOWN = {"findings": [], "fixed": []}
    return _KNOWN


def _match(sig, tags):
    for k, v in sig.items():
        if k not in tags:
            return False
        t = tags[k]
        if isinstance(v, list):
            if t not in v:
                return False
        elif t != v:
            return False
    return True


def known_match(subcheck, tags):
    """Return the id of the known finding whose signature matches (subcheck, tags), else None."""
    for kf in load_known()["findings"]:
        if kf["subcheck"] != subcheck:
            continue
        sigs = kf["match"] if isinstance(kf["match"], list) else [kf["match"]]
        for sig in sigs:
            if _match(sig, tags):
                return kf["id"]
    return None


# --------------------------------------------------------------------------- recorder

class Recorder:
    """Counts what a sub-check actually executed.  One per (sub-check, shard) process."""

    MAX_SAMPLES = 3

    def __init__(self, subcheck, exclude_known=True):
        self.subcheck = subcheck
        self.exclude_known = exclude_known
        self.evaluations = 0
        self.nontrivial = set()
        self.classes = Counter()
        self.excluded = Counter()
        self.inconclusive = Counter()
        self.samples = []
        self.notes = {}
        self.frozen = False
        self._case = None
        self._tags = None

    def begin(self, case):
        self._case = case
        self._tags = None

    def classify(self, tags=None, nontrivial=True, key=None, cls=None):
        """Register the current case.  Returns True when the case falls under a listed known
        finding and must be skipped (counted in `excluded`)."""
        tags = tags or {}
        self._tags = tags
        if self.exclude_known:
            kid = known_match(self.subcheck, tags)
            if kid is not None:
                if not self.frozen:
                    self.excluded[kid] += 1
                return True
        if self.frozen:
            return False
        self.evaluations += 1
        label = cls if cls is not None else ",".join(f"{k}={tags[k]}" for k in sorted(tags))
        self.classes[label] += 1
        if nontrivial:
            h = case_hash(key if key is not None else self._case)
            if h not in self.nontrivial and len(self.samples) < self.MAX_SAMPLES:
                self.samples.append({"subcheck": self.subcheck, "tags": jsonable(tags),
                                     "case": _truncate(jsonable(self._case))})
            self.nontrivial.add(h)
        return False

    def count(self, label, k=1):
        if not self.frozen:
            self.classes[label] += k

    def inconc(self, reason):
        if not self.frozen:
            self.inconclusive[reason] += 1

    def note(self, key, value):
        self.notes[key] = jsonable(value)

    def export(self):
        return {
            "subcheck": self.subcheck,
            "evaluations": self.evaluations,
            "nontrivial": sorted(self.nontrivial),
            "classes": dict(self.classes),
            "excluded": dict(self.excluded),
            "inconclusive": dict(self.inconclusive),
            "samples": self.samples,
            "notes": self.notes,
        }


def _truncate(x, maxlen=400):
    s = json.dumps(x)
    if len(s) <= 4000:
        return x
    return {"truncated_json": s[:4000] + "..."}


# --------------------------------------------------------------------------- sub-check

@dataclass
class SubCheck:
    name: str
    run: Callable                      # run(case: dict, rec: Recorder) -> None | raises Violation
    strategy: Optional[Callable] = None  # tier -> hypothesis strategy producing JSON-able dicts
    enum: Optional[Callable] = None      # tier -> iterable of JSON-able dicts (finite family)
    n: dict = field(default_factory=lambda: {"quick": 200, "thorough": 4000})
    shards: dict = field(default_factory=lambda: {"quick": 1, "thorough": 8})
    shrink: bool = True
    doc: str = ""
    exhaustive: bool = False
    machine: Optional[Callable] = None   # (rec, tier) -> hypothesis RuleBasedStateMachine subclass (stateful sub-check);
    #                                       its failing history is stored as case {"trace": [...]} and replayed through `run`
    steps: dict = field(default_factory=lambda: {"quick": 30, "thorough": 60})


# --------------------------------------------------------------------------- small helpers

def A(x):
    return np.array(x, dtype=float)


def close(a, b, rtol=1e-9, atol=None):
    a = np.asarray(a, dtype=float)
    b = np.asarray(b, dtype=float)
    if a.shape != b.shape:
        return False
    if atol is None:
        atol = rtol
    scale = max(1.0, float(np.max(np.abs(a))) if a.size else 0.0, float(np.max(np.abs(b))) if b.size else 0.0)
    with np.errstate(invalid="ignore"):
        d = np.abs(a - b)
    if not np.all(np.isfinite(d)):
        # allow identical infinities
        return bool(np.array_equal(a, b, equal_nan=True))
    return bool(np.max(d, initial=0.0) <= atol * scale)


def maxdiff(a, b):
    a = np.asarray(a, dtype=float)
    b = np.asarray(b, dtype=float)
    if a.shape != b.shape:
        return float("inf")
    return float(np.max(np.abs(a - b), initial=0.0))


def require(cond, msg, **details):
    if not cond:
        raise Violation(msg, **details)


def must(fn, what):
    """Call library code that the property says must succeed; an exception is a violation."""
    try:
        return fn()
    except Violation:
        raise
    except Exception as e:  # noqa
        raise Violation(f"{what}: raised {type(e).__name__}: {e}")


def refuses(fn):
    """Return (refused, value)."""
    try:
        v = fn()
    except Exception as e:  # noqa
        return True, e
    return False, v
