"""Distribution family specs shared by C03/C04/C05: JSON-able spec -> (cuqi distribution, independent reference).

The reference uses scipy.stats / hand-written formulas from the docstrings and shares no code with cuqi.
"""
import numpy as np
import scipy.stats as sps
from hypothesis import strategies as st

from . import gen

UNIVARIATE_FAMILIES = ["Normal", "Laplace", "SmoothedLaplace", "Cauchy", "Gamma", "InverseGamma", "Beta", "Uniform",
                       "Lognormal", "ModifiedHalfNormal"]


@st.composite
def family_spec(draw, families=None, max_dim=5, modes=("vector", "scalar", "scalar2d", "list", "callable"), magnitudes=False):
    fam = draw(st.sampled_from(families or UNIVARIATE_FAMILIES))
    mode = draw(st.sampled_from(list(modes)))
    if fam == "ModifiedHalfNormal":
        mode, n = "scalar", 1
    elif mode == "scalar2d":
        shape = [draw(st.integers(1, 2)), draw(st.integers(2, 3))]
        n = shape[0] * shape[1]
    else:
        n = draw(st.integers(1, max_dim))
    k = 1 if mode in ("scalar", "scalar2d") else n
    pos = lambda: draw(st.lists(gen.logpos(-1.0, 1.0), min_size=k, max_size=k))
    real = lambda: draw(gen.vec(k, -3, 3))
    # uncommon but legitimate magnitudes: shape-type parameters of several hundred (Gamma functions beyond the double range),
    # scale-type parameters of 1e-6 / 1e6
    big = draw(st.sampled_from([None, None, None, "shape", "small_scale", "large_scale"])) if magnitudes else None
    shp = (lambda: [100.0 * v for v in pos()]) if big == "shape" else pos
    scl = (lambda: [(1e-6 if big == "small_scale" else 1e6) * v for v in pos()]) if big in ("small_scale", "large_scale") else pos
    s = {"fam": fam, "mode": mode, "dim": n}
    if big:
        s["magnitude"] = big
    if mode == "scalar2d":
        s["shape"] = shape
    if fam == "Normal":
        s.update(mean=real(), std=scl())
    elif fam in ("Laplace", "SmoothedLaplace"):
        s.update(location=real(), scale=pos() if fam == "SmoothedLaplace" else pos()[:1])
        if fam == "SmoothedLaplace":
            s["beta"] = draw(st.sampled_from([1e-3, 0.1, 1.0]))
    elif fam == "Cauchy":
        s.update(location=real(), scale=scl())
    elif fam == "Gamma":
        s.update(shape_=shp(), rate=scl())
    elif fam == "InverseGamma":
        s.update(shape_=shp(), location=real(), scale=scl())
    elif fam == "Beta":
        s.update(alpha=shp(), beta=shp())
    elif fam == "Uniform":
        s.update(low=real(), width=pos())
    elif fam == "Lognormal":
        s.update(mean=draw(gen.vec(n, -1, 1)), covkind=draw(st.sampled_from(["scalar", "vector", "matrix"])),
                 var=draw(st.lists(gen.logpos(-1.0, 0.5), min_size=n, max_size=n)), G=draw(gen.mat(n, n, -0.5, 0.5)))
        s["mode"] = "vector"
    elif fam == "ModifiedHalfNormal":
        s.update(alpha=pos(), beta=pos(), gamma=real())
    # evaluation points: raw numbers mapped into / out of the support by `points`
    s["raw"] = draw(gen.vec(n, -2, 2))
    s["raw2"] = draw(gen.vec(n, -2, 2))
    return s


def _par(spec, key):
    """parameter value in the way the spec says it is passed"""
    v = spec[key]
    mode = spec["mode"]
    if mode in ("scalar", "scalar2d"):
        return float(v[0])
    if mode == "list":
        return [float(t) for t in v]
    return np.array(v, dtype=float)


def _full(spec, key):
    v = np.array(spec[key], dtype=float)
    return np.broadcast_to(v, (spec["dim"],)).astype(float) if v.size in (1, spec["dim"]) else v


def build(spec, conditional=False):
    """Return (cuqi distribution, Reference).  With conditional=True the *first* parameter is given as a callable of a
    conditioning variable named 'hyp' and the returned distribution is already conditioned by keyword."""
    import cuqi
    fam, n = spec["fam"], spec["dim"]
    geom = {}
    if spec["mode"] == "scalar":
        geom = {"geometry": n}
    elif spec["mode"] == "scalar2d":
        geom = {"geometry": tuple(spec["shape"])}
    D = cuqi.distribution

    def mk(cls, first_key, first_name, **rest):
        if conditional:
            val = _par(spec, first_key)
            d = cls(**{first_name: (lambda hyp: hyp * 1.0)}, **rest, **geom)
            if not geom:
                d = cls(**{first_name: (lambda hyp: hyp * 1.0)}, **rest, geometry=n)
            return d(hyp=val)
        return cls(**{first_name: _par(spec, first_key)}, **rest, **geom)

    if fam == "Normal":
        d = mk(D.Normal, "mean", "mean", std=_par(spec, "std"))
    elif fam == "Laplace":
        d = mk(D.Laplace, "location", "location", scale=float(spec["scale"][0]))
    elif fam == "SmoothedLaplace":
        d = mk(D.SmoothedLaplace, "location", "location", scale=_par(spec, "scale"), beta=spec["beta"])
    elif fam == "Cauchy":
        d = mk(D.Cauchy, "location", "location", scale=_par(spec, "scale"))
    elif fam == "Gamma":
        d = mk(D.Gamma, "shape_", "shape", rate=_par(spec, "rate"))
    elif fam == "InverseGamma":
        d = D.InverseGamma(_par(spec, "shape_"), _par(spec, "location"), _par(spec, "scale"), **geom)
    elif fam == "Beta":
        d = D.Beta(_par(spec, "alpha"), _par(spec, "beta"), **geom)
    elif fam == "Uniform":
        low = np.array(spec["low"], dtype=float)
        high = low + np.array(spec["width"], dtype=float)
        if spec["mode"] in ("scalar", "scalar2d"):
            d = D.Uniform(float(low[0]), float(high[0]), **geom)
        elif spec["mode"] == "list":
            d = D.Uniform(list(low), list(high))
        else:
            d = D.Uniform(low, high)
    elif fam == "Lognormal":
        d = D.Lognormal(np.array(spec["mean"], dtype=float), lognormal_cov_arg(spec))
    elif fam == "ModifiedHalfNormal":
        d = D.ModifiedHalfNormal(float(spec["alpha"][0]), float(spec["beta"][0]), float(spec["gamma"][0]), geometry=1)
    else:
        raise ValueError(fam)
    return d, Reference(spec)


def lognormal_cov(spec):
    n = spec["dim"]
    if spec["covkind"] == "scalar":
        return spec["var"][0] * np.eye(n)
    if spec["covkind"] == "vector":
        return np.diag(spec["var"])
    return gen.spd_from(spec["G"], 0.3)


def lognormal_cov_arg(spec):
    if spec["covkind"] == "scalar":
        return float(spec["var"][0])
    if spec["covkind"] == "vector":
        return np.array(spec["var"], dtype=float)
    return lognormal_cov(spec)


class Reference:
    """Independent statement of the documented density of a family spec."""

    def __init__(self, spec):
        self.s = spec
        self.fam = spec["fam"]
        self.n = spec["dim"]

    # ---- support handling
    def inside(self, raw):
        """map raw reals to a point strictly inside the support"""
        raw = np.array(raw, dtype=float)
        f = self.fam
        if f == "Gamma":
            # (points scale with shape/rate so that uncommon magnitudes stay in the bulk of the distribution)
            return np.exp(0.3 * raw) * _fullv(self.s, "shape_") / _fullv(self.s, "rate") if self.s.get("magnitude") else np.exp(raw)
        if f in ("Lognormal", "ModifiedHalfNormal"):
            return np.exp(raw)
        if f == "InverseGamma":
            if self.s.get("magnitude"):
                return _fullv(self.s, "location") + np.exp(0.3 * raw) * _fullv(self.s, "scale") / _fullv(self.s, "shape_")
            return _fullv(self.s, "location") + np.exp(raw)
        if f in ("Normal", "Cauchy") and self.s.get("magnitude"):
            return _fullv(self.s, "mean" if f == "Normal" else "location") + raw * _fullv(self.s, "std" if f == "Normal" else "scale")
        if f == "Beta":
            return 1 / (1 + np.exp(-raw))
        if f == "Uniform":
            low = _fullv(self.s, "low")
            return low + (0.05 + 0.9 / (1 + np.exp(-raw))) * _fullv(self.s, "width")
        return raw

    def outside(self, raw):
        """a point outside the support (None if the support is everything)"""
        raw = np.array(raw, dtype=float)
        x = self.inside(raw).copy()
        f = self.fam
        if f in ("Gamma", "Lognormal"):
            x[0] = -abs(raw[0]) - 0.1
        elif f == "InverseGamma":
            x[0] = _fullv(self.s, "location")[0] - abs(raw[0]) - 0.1
        elif f == "Beta":
            x[0] = 1.0 + abs(raw[0]) + 0.1 if raw[0] > 0 else -abs(raw[0]) - 0.1
        elif f == "Uniform":
            low, w = _fullv(self.s, "low"), _fullv(self.s, "width")
            x[0] = low[0] + w[0] + abs(raw[0]) + 0.1 if raw[0] > 0 else low[0] - abs(raw[0]) - 0.1
        else:
            return None
        return x

    # ---- densities
    def logpdf(self, x):
        x = np.asarray(x, dtype=float)
        s, f = self.s, self.fam
        if f == "Normal":
            return float(np.sum(sps.norm.logpdf(x, _fullv(s, "mean"), _fullv(s, "std"))))
        if f == "Laplace":
            return float(np.sum(sps.laplace.logpdf(x, _fullv(s, "location"), s["scale"][0])))
        if f == "SmoothedLaplace":
            b = _fullv(s, "scale")
            return float(np.sum(np.log(1 / (2 * b)) - np.sqrt((x - _fullv(s, "location")) ** 2 + s["beta"]) / b))
        if f == "Cauchy":
            return float(np.sum(sps.cauchy.logpdf(x, _fullv(s, "location"), _fullv(s, "scale"))))
        if f == "Gamma":
            return float(np.sum(sps.gamma.logpdf(x, _fullv(s, "shape_"), scale=1 / _fullv(s, "rate"))))
        if f == "InverseGamma":
            return float(np.sum(sps.invgamma.logpdf(x, _fullv(s, "shape_"), loc=_fullv(s, "location"), scale=_fullv(s, "scale"))))
        if f == "Beta":
            return float(np.sum(sps.beta.logpdf(x, _fullv(s, "alpha"), _fullv(s, "beta"))))
        if f == "Uniform":
            low, w = _fullv(s, "low"), _fullv(s, "width")
            if np.any(x < low) or np.any(x > low + w):
                return -np.inf
            return float(-np.sum(np.log(w)))
        if f == "Lognormal":
            if np.any(x <= 0):
                return -np.inf
            return float(sps.multivariate_normal(np.array(s["mean"]), lognormal_cov(s)).logpdf(np.log(x)) - np.sum(np.log(x)))
        if f == "ModifiedHalfNormal":  # kernel only (documented up to its constant)
            a, b, g = s["alpha"][0], s["beta"][0], s["gamma"][0]
            return float(np.sum((a - 1) * np.log(x) - b * x * x + g * x))
        raise ValueError(f)

    def has_cdf(self):
        return self.fam in ("Normal", "Cauchy", "Gamma", "InverseGamma", "Beta")

    def cdf(self, x):
        x = np.asarray(x, dtype=float)
        s, f = self.s, self.fam
        if f == "Normal":
            return float(np.prod(sps.norm.cdf(x, _fullv(s, "mean"), _fullv(s, "std"))))
        if f == "Cauchy":
            return float(np.prod(sps.cauchy.cdf(x, _fullv(s, "location"), _fullv(s, "scale"))))
        if f == "Gamma":
            return float(np.prod(sps.gamma.cdf(x, _fullv(s, "shape_"), scale=1 / _fullv(s, "rate"))))
        if f == "InverseGamma":
            return float(np.prod(sps.invgamma.cdf(x, _fullv(s, "shape_"), loc=_fullv(s, "location"), scale=_fullv(s, "scale"))))
        if f == "Beta":
            return float(np.prod(sps.beta.cdf(x, _fullv(s, "alpha"), _fullv(s, "beta"))))
        raise ValueError(f)

    def normalised(self):
        return self.fam != "ModifiedHalfNormal"

    def marginal_cdf(self, i, t):
        """cdf of component i (independent families) - used by the sampling checks"""
        s, f = self.s, self.fam
        g = lambda k: _fullv(s, k)[i]
        if f == "Normal":
            return sps.norm.cdf(t, g("mean"), g("std"))
        if f == "Laplace":
            return sps.laplace.cdf(t, g("location"), s["scale"][0])
        if f == "Cauchy":
            return sps.cauchy.cdf(t, g("location"), g("scale"))
        if f == "Gamma":
            return sps.gamma.cdf(t, g("shape_"), scale=1 / g("rate"))
        if f == "InverseGamma":
            return sps.invgamma.cdf(t, g("shape_"), loc=g("location"), scale=g("scale"))
        if f == "Beta":
            return sps.beta.cdf(t, g("alpha"), g("beta"))
        if f == "Uniform":
            return sps.uniform.cdf(t, g("low"), g("width"))
        raise ValueError(f)


def _fullv(spec, key):
    v = np.array(spec[key], dtype=float)
    return np.broadcast_to(v, (spec["dim"],)).astype(float)
