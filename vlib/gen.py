"""Shared generators (Hypothesis strategies producing JSON-able specs) and the builders that turn
specs into numpy / cuqi objects.  Everything random is drawn by Hypothesis."""
import numpy as np
from hypothesis import strategies as st


def fl(lo=-3.0, hi=3.0):
    return st.floats(lo, hi, allow_nan=False, allow_infinity=False, allow_subnormal=False, width=64)


def vec(n, lo=-3.0, hi=3.0):
    return st.lists(fl(lo, hi), min_size=n, max_size=n)


def mat(m, n, lo=-2.0, hi=2.0):
    return st.lists(vec(n, lo, hi), min_size=m, max_size=m)


def logpos(lo=-2.0, hi=2.0):
    """positive scalar, log-uniform in 10**[lo, hi]"""
    return fl(lo, hi).map(lambda e: float(10.0 ** e))


# ------------------------------------------------------------------ geometries

IDENTITY_LIKE_1D = ["default", "cont1d", "discrete", "image_vis"]


@st.composite
def geom1d_spec(draw, fun_dim, kinds=None):
    """A geometry whose function values are vectors of length fun_dim."""
    kinds = kinds or (IDENTITY_LIKE_1D + ["kl", "step"])
    kind = draw(st.sampled_from(kinds))
    if kind in ("image_vis", "kl", "step") and fun_dim < 2:
        kind = "cont1d"
    spec = {"kind": kind, "fun_dim": fun_dim}
    if kind == "kl":
        spec["num_modes"] = draw(st.integers(1, fun_dim))
        spec["decay"] = draw(st.sampled_from([0.5, 1.0, 2.5]))
        spec["norm"] = draw(st.sampled_from([1.0, 12.0, 3.0]))
    elif kind == "step":
        if fun_dim < 2:
            spec["kind"] = "cont1d"
        else:
            spec["n_steps"] = draw(st.integers(1, fun_dim))
            spec["proj"] = draw(st.sampled_from(["mean", "max", "min"]))
    elif kind == "cont1d":
        spec["x0"] = draw(st.sampled_from([0.0, -1.0, 0.3]))
        spec["h"] = draw(st.sampled_from([1.0, 0.1, 0.7]))
    return spec


def make_geometry(spec):
    import cuqi
    k = spec["kind"]
    n = spec.get("fun_dim")
    if k == "default":
        return cuqi.geometry._DefaultGeometry1D(n)
    if k == "cont1d":
        return cuqi.geometry.Continuous1D(spec.get("x0", 0.0) + spec.get("h", 1.0) * np.arange(n))
    if k == "discrete":
        return cuqi.geometry.Discrete(n)
    if k == "image_vis":
        # any factorisation; visual only => par2fun is the identity on vectors
        a = max(d for d in range(1, n + 1) if n % d == 0 and d * d <= n)
        # (the flag may be a numpy boolean - the result of a comparison - as well as a Python one)
        return cuqi.geometry.Image2D((a, n // a), visual_only=np.True_ if n % 2 else True)
    if k == "kl":
        return cuqi.geometry.KLExpansion(np.linspace(0, 1, n), decay_rate=spec["decay"], normalizer=spec["norm"],
                                         num_modes=spec["num_modes"])
    if k == "step":
        return cuqi.geometry.StepExpansion(np.linspace(0, 1, n), n_steps=spec["n_steps"],
                                           fun2par_projection=spec["proj"])
    if k == "image":
        return cuqi.geometry.Image2D(tuple(spec["shape"]), order=spec.get("order", "C"))
    if k == "cont2d":
        return cuqi.geometry.Continuous2D((spec["shape"][0], spec["shape"][1]))
    raise ValueError(k)


def geom_par_dim(spec):
    k = spec["kind"]
    if k == "kl":
        return spec["num_modes"]
    if k == "step":
        return spec["n_steps"]
    if k in ("image", "cont2d"):
        return spec["shape"][0] * spec["shape"][1]
    return spec["fun_dim"]


def geom_is_identity_like(spec):
    return spec["kind"] in ("default", "cont1d", "discrete", "image_vis", "image", "cont2d")


# ------------------------------------------------------------------ matrices

def spd_from(G, shift):
    """SPD matrix from raw entries: G G^T + shift*I (condition controlled by shift)."""
    G = np.array(G, dtype=float)
    return G @ G.T + shift * np.eye(G.shape[0])


def named_callable(argnames, impl):
    """A real python function whose *argument names* are the given variable names."""
    src = f"def f({', '.join(argnames)}):\n    return impl({', '.join(argnames)})\n"
    ns = {"impl": impl}
    exec(src, ns)
    return ns["f"]


# ------------------------------------------------------------------ full geometry family (C12, C13)

MAPS = {
    # name: (map, inverse, derivative of map)
    "exp": (lambda f: np.exp(f), lambda g: np.log(g), lambda f: np.exp(f)),
    "affine": (lambda f: 2.0 * f + 1.0, lambda g: (g - 1.0) / 2.0, lambda f: 2.0 + 0 * f),
    "cube": (lambda f: f ** 3, lambda g: np.cbrt(g), lambda f: 3 * f ** 2),
    # a map that couples the values of ONE function (written for a single function, as the documentation describes the map):
    # f / sqrt(1 + sum f^2); its inverse g / sqrt(1 - sum g^2)
    "unitball": (lambda f: f / np.sqrt(1.0 + np.sum(np.asarray(f) ** 2)), lambda g: g / np.sqrt(1.0 - np.sum(np.asarray(g) ** 2)), None),
}
COUPLED_MAPS = {"unitball"}


@st.composite
def any_geom_spec(draw, max_dim=6, allow_mapped=True, kinds=None):
    kinds = kinds or ["default", "cont1d", "discrete", "image", "image_vis", "default2d", "cont2d", "kl", "step", "mapped", "mapped"]
    kind = draw(st.sampled_from(kinds))
    if kind == "mapped":
        if not allow_mapped:
            kind = "cont1d"
        else:
            base = draw(any_geom_spec(max_dim=max_dim, allow_mapped=False,
                                      kinds=["cont1d", "discrete", "image", "image", "cont2d", "kl", "step", "default"]))
            return {"kind": "mapped", "base": base, "map": draw(st.sampled_from(sorted(MAPS))),
                    "imap": draw(st.sampled_from([True, True, False]))}
    if kind in ("image", "default2d", "cont2d"):
        shape = [draw(st.integers(1, 3)), draw(st.integers(1, 3))]
        if shape[0] * shape[1] < 2:
            shape[1] = 2
        spec = {"kind": kind, "shape": shape}
        if kind == "image":
            spec["order"] = draw(st.sampled_from(["C", "F"]))
        return spec
    n = draw(st.integers(2, max_dim))
    return draw(geom1d_spec(n, [kind]))


_make_geometry_1d = make_geometry


def make_geometry(spec):  # noqa: F811  (extends the 1-D builder)
    import cuqi
    k = spec["kind"]
    if k == "default2d":
        return cuqi.geometry._DefaultGeometry2D(tuple(spec["shape"]))
    if k == "mapped":
        base = make_geometry(spec["base"])
        m, im, _ = MAPS[spec["map"]]
        return cuqi.geometry.MappedGeometry(base, m, im if spec["imap"] else None)
    return _make_geometry_1d(spec)


def geom_par_dim(spec):  # noqa: F811
    k = spec["kind"]
    if k == "mapped":
        return geom_par_dim(spec["base"])
    if k == "kl":
        return spec["num_modes"]
    if k == "step":
        return spec["n_steps"]
    if k in ("image", "cont2d", "default2d"):
        return spec["shape"][0] * spec["shape"][1]
    return spec["fun_dim"]


def geom_fun_shape(spec):
    k = spec["kind"]
    if k == "mapped":
        return geom_fun_shape(spec["base"])
    if k in ("image", "cont2d", "default2d"):
        return tuple(spec["shape"])
    return (spec["fun_dim"],)


def geom_kind(spec):
    return spec["kind"] if spec["kind"] != "mapped" else f"mapped({spec['base']['kind']},{spec['map']},imap={spec['imap']})"


# ------------------------------------------------------------------ memory layouts of array arguments

LAYOUTS = ["plain", "plain", "fortran", "strided", "reversed", "readonly"]


def relayout(arr, kind):
    """the same numbers in another memory layout (Fortran order, a non-contiguous view, negative strides, read-only):
    a caller may hand any of them to the library"""
    a = np.array(arr, dtype=float)
    if kind == "fortran":
        return np.asfortranarray(a)
    if kind == "strided":
        big = np.zeros(tuple(2 * d for d in a.shape))
        view = big[tuple(slice(None, None, 2) for _ in a.shape)]
        view[...] = a
        return view
    if kind == "reversed":
        rev = a[tuple(slice(None, None, -1) for _ in a.shape)].copy()
        return rev[tuple(slice(None, None, -1) for _ in a.shape)]
    if kind == "readonly":
        a.flags.writeable = False
        return a
    return a
