"""Calibrated statistical sub-checks: tests of identities that hold exactly when the property holds.

Two-stage rule: a first-stage p-value below ALPHA1 triggers an independent second stage with 8x the
replicates and a fresh seed stream; only a second rejection (p < ALPHA2) is a violation.  Joint
false-alarm probability per test <= ALPHA1*ALPHA2.
"""
import numpy as np
import scipy.stats as sps

ALPHA1 = 1e-5
ALPHA2 = 1e-6


def ks_uniform(u):
    """Kolmogorov-Smirnov p-value of u ~ U(0,1)."""
    u = np.asarray(u, dtype=float)
    return float(sps.kstest(u, "uniform").pvalue)


def z_mean(x, mu, sigma):
    """two-sided p-value for mean(x) = mu with known sigma"""
    x = np.asarray(x, dtype=float)
    z = (np.mean(x) - mu) / (sigma / np.sqrt(len(x)))
    return float(2 * sps.norm.sf(abs(z)))


def chi2_var(x, mu, sigma):
    """two-sided p-value for sum((x-mu)^2)/sigma^2 ~ chi2(n)"""
    x = np.asarray(x, dtype=float)
    s = np.sum((x - mu) ** 2) / sigma ** 2
    n = len(x)
    p = sps.chi2.cdf(s, n)
    return float(2 * min(p, 1 - p))


def two_stage(stat_fn, n1, seed, factor=8):
    """stat_fn(n_replicates, seed) -> dict name -> p-value.  Returns (violations, report)."""
    p1 = stat_fn(n1, seed)
    suspicious = {k: v for k, v in p1.items() if v < ALPHA1 / max(1, len(p1))}
    report = {"stage1": p1, "n1": n1}
    if not suspicious:
        return {}, report
    p2 = stat_fn(n1 * factor, seed + 1000003)
    report["stage2"] = p2
    report["n2"] = n1 * factor
    confirmed = {k: p2[k] for k in suspicious if p2.get(k, 1.0) < ALPHA2}
    return confirmed, report
