"""C08 - the No-U-Turn sampler leaves its target invariant."""
import os
import numpy as np
import scipy.stats as sps
from hypothesis import strategies as st

from vlib.core import SubCheck, Violation, require, close, maxdiff, A, must, refuses
from vlib import gen, stats
from vlib.rand import ScriptedRNG, patched_global

PROPERTY = "C08"
RULE = ("Deterministic part: Hypothesis draws a smooth target (quadratic + quartic), dimension 1-4, start point, momentum, slice variable, "
        "step size from tiny to beyond the stability limit, max depth 0-4, the interface (cuqi.experimental.mcmc / cuqi.sampler); the "
        "momentum and the slice variable are scripted and every leaf evaluation is recorded. Statistical part: Gaussian targets with known "
        "moments and the 'banana', step sizes 0.05-1.4 x the stability limit, depth 0-4, 1-3 transitions from exact target draws, fresh / "
        "after warm-up. Non-trivial: >= 2 doublings and >= 1 leaf outside the slice; distinct = distinct generated case.")
ASSUMPTIONS = ["own leapfrog orbit through (x0, r0) is the reference integrator (reversible, volume preserving by construction); leaf positions "
               "compared with 1e-8 relative tolerance",
               "the set of evaluated leaves depends only on the slice variable, the directions (inferred from the order of evaluations) and the "
               "stopping rules - not on the sub-sampling uniforms - so the structural checks are independent of the order of uniform draws",
               "U-turn dot products within 1e-9 relative of zero are inconclusive",
               "statistical part: family-wise level 1e-5 first stage, confirming second stage with 8x replicates; detects variance bias of ~10% "
               "(quick, 4000 replicates) / ~3% (thorough, 40000)"]


class RecTarget:
    def __init__(self, c):
        n = c["dim"]
        self.a = A(c["ta"])
        self.H = gen.spd_from(c["tG"], 0.6)
        self.q = c["tq"]
        self.calls = []

        # "beta": a target with bounded support (0,1)^n - log-density -inf and gradient nan outside, as the library's own Beta
        self.kind = c.get("tkind", "smooth")
        self.pa = 1.5 + 2.0 * np.abs(self.a)
        self.pb = 1.5 + 2.0 * np.abs(np.diag(np.asarray(c["tG"], dtype=float)))
        # "cliff": the smooth target minus 2000 * sigmoid((z_0 - wall) / 1e-3) - a steep (differentiable) wall a little ahead of the
        # start: a leaf beyond it has a finite energy error of -2000 (a divergence) while its momentum is unchanged (no U-turn)
        self.wall = float(np.asarray(c["x0"], dtype=float).reshape(-1)[0]) + 0.8

    def f(self, z):
        if self.kind == "beta":
            z = np.asarray(z, dtype=float).reshape(-1)
            if not np.all((z > 0) & (z < 1)):
                return -np.inf
            return float(np.sum((self.pa - 1) * np.log(z) + (self.pb - 1) * np.log1p(-z)))
        r = np.asarray(z, dtype=float).reshape(-1) - self.a
        base = float(-0.5 * r @ self.H @ r - self.q * np.sum(r ** 4))
        if self.kind == "cliff":
            with np.errstate(all="ignore"):
                u = (float(np.asarray(z, dtype=float).reshape(-1)[0]) - self.wall) / 1e-3
                base -= 2000.0 / (1.0 + np.exp(-u)) if u < 700 else 2000.0
        return base

    def g(self, z):
        if self.kind == "beta":
            z = np.asarray(z, dtype=float).reshape(-1)
            if not np.all((z > 0) & (z < 1)):
                return np.full(len(z), np.nan)
            return (self.pa - 1) / z - (self.pb - 1) / (1 - z)
        r = np.asarray(z, dtype=float).reshape(-1) - self.a
        grad = -(self.H @ r) - 4 * self.q * r ** 3
        if self.kind == "cliff":
            with np.errstate(all="ignore"):
                u = (float(np.asarray(z, dtype=float).reshape(-1)[0]) - self.wall) / 1e-3
                sg = 1.0 / (1.0 + np.exp(-u)) if abs(u) < 700 else (1.0 if u > 0 else 0.0)
                grad = grad.copy()
                grad[0] -= 2000.0 * sg * (1.0 - sg) / 1e-3
        return grad

    def build(self, dim):
        import cuqi

        def frec(z):
            self.calls.append(np.array(z, dtype=float).reshape(-1).copy())
            return self.f(z)
        return cuqi.distribution.UserDefinedDistribution(dim=dim, logpdf_func=frec, gradient_func=self.g)


@st.composite
def det_cases(draw, tier="quick"):
    n = draw(st.integers(1, 4))
    return {"dim": n, "ta": draw(gen.vec(n, -1, 1)), "tG": draw(gen.mat(n, n, -0.7, 0.7)), "tq": draw(st.sampled_from([0.0, 0.05, 0.5])),
            "x0": draw(gen.vec(n, -1.5, 1.5)), "r0": draw(gen.vec(n, -2, 2)),
            # slice variable log u = H0 - e: small e puts many leaves outside the slice, large e almost none
            "e": float(10 ** draw(st.floats(-4, 0.7))),
            # (not exactly 1.0: the legacy sampler reads adapt_step_size == 1.0 as True, i.e. 'adapt')
            "eps": draw(st.sampled_from([1e-3, 0.05, 0.05, 0.1, 0.2, 0.2, 0.35, 0.5, 0.7, 0.9, 1.3, 2.0, 4.0, 8.0, 20.0])),
            # (deep trees with small steps: the last doubling is often cut short inside its second half - halves of unequal size)
            "depth": draw(st.sampled_from([0, 1, 2, 3, 4, 5, 6, 6])),
            "interface": draw(st.sampled_from(["experimental", "legacy"])), "useed": draw(st.integers(0, 10 ** 6)),
            # legacy interface: the sampler object has already produced a chain from another start before it is given x0
            "reuse": draw(st.booleans()),
            # the target: smooth on R^n, or with bounded support (leaves outside the support have log-density -inf and no gradient)
            "tkind": draw(st.sampled_from(["smooth", "smooth", "beta", "cliff"]))}


def orbit(T, x0, r0, eps, K):
    """reference leapfrog orbit: positions, momenta, Hamiltonians for indices -K..K"""
    xs, rs = {0: np.array(x0, dtype=float)}, {0: np.array(r0, dtype=float)}
    for sgn in (1, -1):
        x, r = np.array(x0, dtype=float), np.array(r0, dtype=float)
        for i in range(1, K + 1):
            with np.errstate(all="ignore"):
                r = r + 0.5 * sgn * eps * T.g(x)
                x = x + sgn * eps * r
                r = r + 0.5 * sgn * eps * T.g(x)
            xs[sgn * i], rs[sgn * i] = x.copy(), r.copy()
    with np.errstate(all="ignore"):
        Hs = {i: T.f(xs[i]) - 0.5 * float(rs[i] @ rs[i]) for i in xs}
    return xs, rs, Hs


class Inconclusive(Exception):
    pass


def orbit_separated(xs):
    """True when distinct orbit indices have distinguishable positions (the harness identifies leaves by position)"""
    pts = np.array([x for i, x in sorted(xs.items()) if np.all(np.isfinite(x))])
    if len(pts) < 2:
        return True
    pts = pts.reshape(len(pts), -1)
    mag = np.max(np.abs(pts), axis=1)
    dist = np.max(np.abs(pts[:, None, :] - pts[None, :, :]), axis=2)
    lim = 1e-6 * (1 + np.maximum(mag[:, None], mag[None, :]))
    with np.errstate(all="ignore"):
        close_ = dist <= lim
    np.fill_diagonal(close_, False)
    return not bool(np.any(close_))


def uturn(xs, rs, lo, hi):
    d = xs[hi] - xs[lo]
    a, b = float(d @ rs[lo]), float(d @ rs[hi])
    scale = 1e-9 * (1 + np.linalg.norm(d) * (np.linalg.norm(rs[lo]) + np.linalg.norm(rs[hi])))
    if abs(a) < scale or abs(b) < scale or not (np.isfinite(a) and np.isfinite(b)):
        raise Inconclusive("uturn_tie")
    return int(a >= 0) * int(b >= 0)


def ref_subtree(xs, rs, Hs, log_u, start, v, j, visited):
    """Algorithm-3 BuildTree on the reference orbit: returns (lo, hi, s); appends evaluated leaf indices to `visited`"""
    if j == 0:
        i = start + v
        visited.append(i)
        Hp = Hs[i]
        if not np.isfinite(Hp):
            s = 0
        else:
            if abs(log_u - (1000 + Hp)) < 1e-9:
                raise Inconclusive("divergence_tie")
            s = int(log_u < 1000 + Hp)
        return i, i, s
    lo, hi, s = ref_subtree(xs, rs, Hs, log_u, start, v, j - 1, visited)
    if s == 1:
        edge = hi if v == 1 else lo
        lo2, hi2, s2 = ref_subtree(xs, rs, Hs, log_u, edge, v, j - 1, visited)
        lo, hi = min(lo, lo2), max(hi, hi2)
        s = s2 * uturn(xs, rs, lo, hi) if s2 == 1 else 0
    return lo, hi, s


def run_det(c, rec):
    import cuqi
    n, eps, D = c["dim"], c["eps"], c["depth"]
    T = RecTarget(c)
    dist = T.build(n)
    x0, r0 = A(c["x0"]), A(c["r0"])
    if c.get("tkind") == "beta":
        x0 = 0.5 + 0.2 * x0      # inside the support
    if np.linalg.norm(r0) < 1e-3:
        r0 = r0 + 0.7     # (Hypothesis favours the zero vector; a vanishing momentum only produces ties)
    rng = ScriptedRNG(normal=list(r0), exponential=[c["e"]], fallback_seed=c["useed"])
    try:
        if c["interface"] == "experimental":
            s = cuqi.experimental.mcmc.NUTS(dist, initial_point=x0.copy(), max_depth=D, step_size=eps)
            s.initialize()
            T.calls.clear()
            with patched_global(rng):
                s.warmup(1, tune_freq=1.0)   # exactly one transition followed by one tuning update
            new = np.asarray(s.current_point, dtype=float).reshape(-1).copy()
        else:
            if c.get("reuse"):
                s = cuqi.sampler.NUTS(dist, x0=x0 + 0.37, max_depth=D, adapt_step_size=eps)
                np.random.seed(c["useed"] % (2 ** 31))
                try:
                    s.sample(2)
                finally:
                    np.random.seed()
                s.x0 = x0.copy()
            else:
                s = cuqi.sampler.NUTS(dist, x0=x0.copy(), max_depth=D, adapt_step_size=eps)
            T.calls.clear()
            with patched_global(rng):
                S = s.sample(2)
            X2 = np.asarray(S.samples, dtype=float)
            require(maxdiff(X2[:, 0], x0) == 0, "legacy NUTS: the first stored state is not the start point x0", got=X2[:, 0], x0=x0)
            new = X2[:, 1].copy()
            if T.calls and maxdiff(T.calls[0], x0) == 0:
                T.calls.pop(0)  # evaluation at x0
    except NameError as e:  # 'NaN potential func': the sampler refuses to continue
        rec.classify({"interface": c["interface"], "result": "refused_nan"}, False)
        return
    if rng.q["exponential"] or rng.q["normal"]:
        # the implementation does not draw its momentum / slice variable through np.random.randn / np.random.exponential (any
        # equivalent way of drawing them is legitimate): nothing can be scripted, the statistical sub-checks decide
        rec.classify({"interface": c["interface"], "result": "inconclusive"}, False)
        rec.inconc("momentum_or_slice_variable_not_scriptable")
        return
    leaves = [p.copy() for p in T.calls]
    K = 2 ** (D + 1)
    xs, rs, Hs = orbit(T, x0, r0, eps, K)
    H0 = Hs[0]
    log_u = H0 - c["e"]
    if not orbit_separated(xs):
        rec.classify({"interface": c["interface"], "result": "inconclusive"}, False)
        rec.inconc("orbit_points_coincide")   # e.g. zero momentum at the mode: leaves cannot be told apart by position
        return
    # map every evaluated leaf to an orbit index
    idxs = []
    okeys = [i for i, xi in xs.items() if i != 0 and np.all(np.isfinite(xi))]
    omat = np.array([xs[i] for i in okeys]).reshape(len(okeys), -1)
    oscale = 1 + np.max(np.abs(omat), axis=1) if len(okeys) else None
    for p in leaves:
        best, bi = None, None
        if len(okeys) and np.all(np.isfinite(p)):
            dd = np.max(np.abs(omat - p[None, :]), axis=1) / oscale
            k = int(np.argmin(dd))
            best, bi = float(dd[k]), okeys[k]
        if not np.all(np.isfinite(p)):
            idxs.append(None)
            continue
        require(best is not None and best <= 1e-8, "an evaluated leaf does not lie on the leapfrog orbit through (x0, r0) - the integrator is not the "
                "reversible, volume-preserving leapfrog scheme", leaf=p, nearest_orbit_distance=best)
        idxs.append(bi)
    # replay the doubling procedure
    try:
        pos, lo, hi, sflag, j = 0, 0, 0, 1, 0
        candidates = {0}
        last_doubling = []
        ndoubl = 0
        outside = False
        while sflag == 1 and j <= D:
            require(pos < len(idxs), "the trajectory stopped although neither a U-turn nor a divergence occurred and the depth limit was not reached",
                    doublings_done=j, evaluated=idxs)
            first = idxs[pos]
            if first is None:
                raise Inconclusive("nonfinite_leaf_position")
            require(first in (hi + 1, lo - 1), "a doubling does not start at the end of the current trajectory", first=first, interval=(lo, hi))
            v = 1 if first == hi + 1 else -1
            visited = []
            l2, h2, s2 = ref_subtree(xs, rs, Hs, log_u, hi if v == 1 else lo, v, j, visited)
            got = idxs[pos:pos + len(visited)]
            require(got == visited, "the leaves evaluated in a doubling are not those of the reference tree (stop at the first U-turn or divergence, "
                    "including inside a sub-tree)", got=idxs[pos:pos + len(visited) + 2], want=visited, depth=j)
            pos += len(visited)
            last_doubling = visited
            ndoubl += 1
            if s2 == 1:
                candidates.update(i for i in visited if np.isfinite(Hs[i]) and log_u <= Hs[i])
            outside = outside or any((not np.isfinite(Hs[i])) or log_u > Hs[i] for i in visited)
            lo, hi = min(lo, l2), max(hi, h2)
            sflag = s2 * uturn(xs, rs, lo, hi) if s2 == 1 else 0
            j += 1
        require(pos == len(idxs), "leaves were evaluated after the trajectory should have stopped (U-turn, divergence or depth limit)",
                extra=idxs[pos:], doublings=j)
    except Inconclusive as e:
        rec.classify({"interface": c["interface"], "result": "inconclusive"}, False)
        rec.inconc(str(e))
        return
    L = len(last_doubling)
    outside_support = any(not np.isfinite(Hs[i]) for i in last_doubling)
    # a last doubling that was cut short inside its second half (leaf count not a power of two) has sub-trees with halves of unequal size
    tags = {"interface": c["interface"], "doublings": min(ndoubl, 5), "outside_slice": bool(outside),
            "last_doubling": "complete" if L == 2 ** (j - 1) else "cut_pow2" if L & (L - 1) == 0 else "cut_unequal_halves",
            "target": c.get("tkind", "smooth"), "nonfinite_leaf": bool(outside_support),
            # a leaf whose energy error is finite and exceeds the divergence threshold (the trajectory must stop there)
            "finite_divergence": bool(any(np.isfinite(Hs[i]) and log_u >= 1000 + Hs[i] for i in last_doubling))}
    if rec.classify(tags, ndoubl >= 2 and outside):
        return
    # the new state
    require(np.all(np.isfinite(new)), "a non-finite state was selected")
    match = [i for i in candidates if maxdiff(new, xs[i]) <= 1e-8 * (1 + np.max(np.abs(xs[i])))]
    require(len(match) >= 1, "the new state is neither the old state nor a leaf of a completed doubling that lies in the slice",
            new=new, candidates=sorted(candidates), log_u=log_u, H={i: Hs[i] for i in sorted(candidates)})
    if c["interface"] == "experimental":
        require(close(float(np.asarray(s.current_target_logd).reshape(-1)[0]), T.f(new), 1e-10), "the cached log-density does not belong to the current point")
        require(close(np.asarray(s.current_target_grad, dtype=float).reshape(-1), T.g(new), 1e-10), "the cached gradient does not belong to the current point")
        ratio = getattr(s, "_current_alpha_ratio", None)
        if ratio is not None and last_doubling:
            with np.errstate(all="ignore"):
                want = float(np.mean([min(1.0, np.exp(Hs[i] - H0)) if np.isfinite(Hs[i]) else 0.0 for i in last_doubling]))
            got = float(np.asarray(ratio).reshape(-1)[0])
            if True:
                require(np.isfinite(got) and abs(got - want) <= 1e-8, "the acceptance statistic is not the mean Metropolis probability over the leaves of the last doubling",
                        got=got, want=want, last_doubling=last_doubling)
            # and it is what the step-size adaptation consumed (dual averaging, first update)
            st_ = s.get_state()["state"]
            eps1 = float(st_["_epsilon"])
            want_eps = float(np.exp(np.log(10 * eps) - (1 / 0.05) * (1 / 11.0) * (0.6 - want)))
            if np.isfinite(eps1) and np.isfinite(want_eps):
                require(abs(np.log(eps1) - np.log(want_eps)) <= 1e-7, "the step size after the first dual-averaging update does not correspond to the mean "
                        "Metropolis probability over the last doubling", got=eps1, want=want_eps)


# ----------------------------------------------------------------------------- exact selection law given momentum and slice

def replay_pattern(xs, rs, Hs, log_u, idxs, D):
    """given the sequence of visited leaf indices, return the reference selection probabilities {index: prob} (Alg. 3:
    uniform among in-slice leaves inside a completed subtree, top-level move with probability min(1, n'/n))"""
    pos, lo, hi, sflag, j = 0, 0, 0, 1, 0
    prob = {0: 1.0}
    n = 1
    while sflag == 1 and j <= D:
        if pos >= len(idxs):
            raise Inconclusive("pattern_too_short")
        first = idxs[pos]
        if first not in (hi + 1, lo - 1):
            raise Inconclusive("pattern_mismatch")
        v = 1 if first == hi + 1 else -1
        visited = []
        l2, h2, s2 = ref_subtree(xs, rs, Hs, log_u, hi if v == 1 else lo, v, j, visited)
        if idxs[pos:pos + len(visited)] != visited:
            raise Inconclusive("pattern_mismatch")
        pos += len(visited)
        inslice = [i for i in visited if np.isfinite(Hs[i]) and log_u <= Hs[i]]
        for i in visited:
            if np.isfinite(Hs[i]) and abs(log_u - Hs[i]) < 1e-9:
                raise Inconclusive("slice_tie")
        npr = len(inslice)
        if s2 == 1 and npr > 0:
            a = min(1.0, npr / n)
            prob = {i: p * (1 - a) for i, p in prob.items()}
            for i in inslice:
                prob[i] = prob.get(i, 0.0) + a / npr
        n += npr
        lo, hi = min(lo, l2), max(hi, h2)
        sflag = s2 * uturn(xs, rs, lo, hi) if s2 == 1 else 0
        j += 1
    return {i: p for i, p in prob.items() if p > 0}


@st.composite
def sel_cases(draw, tier="quick"):
    c = draw(det_cases(tier))
    c["eps"] = draw(st.sampled_from([0.2, 0.35, 0.5, 0.7, 0.9]))
    c["depth"] = draw(st.integers(1, 3))
    c["e"] = float(10 ** draw(st.floats(-2.5, 0.3)))
    c["M"] = 4000 if tier == "quick" else 20000
    return c


def run_selection(c, rec):
    import cuqi
    n, eps, D = c["dim"], c["eps"], c["depth"]
    if rec.classify({"interface": c["interface"], "depth": D}, True):
        return
    T = RecTarget(c)
    dist = T.build(n)
    x0, r0 = A(c["x0"]), A(c["r0"])
    if np.linalg.norm(r0) < 1e-3:
        r0 = r0 + 0.7
    K = 2 ** (D + 1)
    xs, rs, Hs = orbit(T, x0, r0, eps, K)
    log_u = Hs[0] - c["e"]
    f0, g0 = T.f(x0), T.g(x0)
    if not orbit_separated(xs):
        rec.inconc("orbit_points_coincide")
        return

    def index_of(p):
        best, bi = None, None
        for i, xi in xs.items():
            if not np.all(np.isfinite(xi)):
                continue
            dd = np.max(np.abs(p - xi)) / (1 + np.max(np.abs(xi)))
            if best is None or dd < best:
                best, bi = dd, i
        return bi if best is not None and best <= 1e-8 else None

    def stat(M, seed):
        counts = {}
        if c["interface"] == "experimental":
            s = cuqi.experimental.mcmc.NUTS(dist, initial_point=x0.copy(), max_depth=D, step_size=eps)
            s.initialize()
            np.random.seed(0)
            s.sample(1)
            np.random.seed()
            base = s.get_state()
        M_eff = M if c["interface"] == "experimental" else max(M // 2, 500)
        for m in range(M_eff):
            rng = ScriptedRNG(normal=list(r0), exponential=[c["e"]], fallback_seed=(seed * 100003 + m) % (2 ** 32 - 1))
            T.calls.clear()
            try:
                if c["interface"] == "experimental":
                    stt = {"metadata": base["metadata"], "state": dict(base["state"])}
                    stt["state"].update(current_point=x0.copy(), current_target_logd=f0, current_target_grad=g0.copy())
                    s.set_state(stt)
                    with patched_global(rng):
                        s.step()
                    new = np.asarray(s.current_point, dtype=float).reshape(-1)
                    leaves = list(T.calls)
                else:
                    sl = cuqi.sampler.NUTS(dist, x0=x0.copy(), max_depth=D, adapt_step_size=eps)
                    with patched_global(rng):
                        S = sl.sample(2)
                    new = np.asarray(S.samples, dtype=float)[:, 1]
                    leaves = list(T.calls)[1:]
            except NameError:
                continue
            if rng.q["exponential"] or rng.q["normal"]:
                continue   # momentum / slice variable drawn some other (legitimate) way: not scriptable
            key = tuple(index_of(p) for p in leaves)
            if None in key:
                continue
            sel = index_of(new)
            counts.setdefault(key, {})
            counts[key][sel] = counts[key].get(sel, 0) + 1
        # chi-square per direction pattern against the reference selection law
        out = {}
        for key, obs in counts.items():
            tot = sum(obs.values())
            if tot < 200:
                continue
            try:
                prob = replay_pattern(xs, rs, Hs, log_u, list(key), D)
            except Inconclusive:
                continue
            # a selected index with reference probability zero is an outright violation
            for i in obs:
                if i not in prob:
                    return {"impossible_selection": 0.0}
            idx = sorted(prob)
            exp = np.array([prob[i] * tot for i in idx])
            ob = np.array([obs.get(i, 0) for i in idx], dtype=float)
            keep = exp >= 5
            if keep.sum() < 2:
                continue
            e2 = np.append(exp[keep], exp[~keep].sum()) if (~keep).any() else exp[keep]
            o2 = np.append(ob[keep], ob[~keep].sum()) if (~keep).any() else ob[keep]
            if e2[-1] == 0:
                e2, o2 = e2[:-1], o2[:-1]
            chi = float(np.sum((o2 - e2) ** 2 / e2))
            out["chi2:" + ",".join(str(k) for k in key)] = float(sps.chi2.sf(chi, len(e2) - 1))
        return out
    bad, report = stats.two_stage(stat, c["M"], seed=c["useed"] % 1000 + 1, factor=4)
    rec.note("repeats_stage1", c["M"])
    rec.count("patterns_tested", len(report.get("stage1", {})))
    require(not bad, f"NUTS ({c['interface']}): for a fixed momentum and slice variable the frequencies with which each leaf becomes the new state "
                     "are not those of uniform progressive sub-sampling with the top-level acceptance min(1, n'/n)", pvalues=bad,
            report={k: v for k, v in report.items() if k in ("stage1", "stage2")})


# ----------------------------------------------------------------------------- statistical invariance

@st.composite
def inv_cases(draw, tier="quick"):
    kind = draw(st.sampled_from(["gauss", "gauss", "banana", "beta"]))
    n = 2 if kind == "banana" else draw(st.integers(1, 3))
    return {"kind": kind, "dim": n, "G": draw(gen.mat(n, n, -0.7, 0.7)), "mu": draw(gen.vec(n, -1, 1)),
            "eps_frac": draw(st.sampled_from([0.05, 0.3, 0.7, 1.1, 1.4])), "depth": draw(st.integers(0, 4)), "k": draw(st.integers(1, 3)),
            "interface": draw(st.sampled_from(["experimental", "legacy"])), "history": draw(st.sampled_from(["fresh", "fresh", "warmup"])),
            "seed": draw(st.integers(0, 10 ** 6)), "R": 4000 if tier == "quick" else 40000, "ban_a": draw(st.sampled_from([0.5, 1.0])),
            # un-normalised targets: a constant added to the log-density (posteriors with many observations have log-densities
            # of -10^3 ... -10^4) must not change the kernel
            "shift": draw(st.sampled_from([0.0, 0.0, -900.0, -5000.0, 400.0]))}


def run_inv(c, rec):
    import cuqi
    n = c["dim"]
    shift = float(c.get("shift", 0.0))
    if rec.classify({"kind": c["kind"], "interface": c["interface"], "history": c["history"], "depth": c["depth"], "eps": c["eps_frac"],
                     "shift": shift}, True):
        return
    if c["kind"] == "gauss":
        S = gen.spd_from(c["G"], 0.5)
        mu = A(c["mu"])
        Sinv = np.linalg.inv(S)
        Lc = np.linalg.cholesky(S)
        f = lambda x: float(-0.5 * (np.asarray(x) - mu) @ Sinv @ (np.asarray(x) - mu)) + shift
        g = lambda x: -(Sinv @ (np.asarray(x) - mu))
        lam_max = float(np.max(np.linalg.eigvalsh(Sinv)))
        eps = c["eps_frac"] * 2.0 / np.sqrt(lam_max)      # leapfrog stability limit 2/sqrt(lambda_max)
        draw0 = lambda rs: mu + Lc @ rs.standard_normal(n)
        whiten = lambda x: np.linalg.solve(Lc, x - mu)
    elif c["kind"] == "beta":
        # bounded support (0,1)^n: log-density -inf and gradient nan outside, as the library's own Beta
        pa = 1.5 + 2.0 * np.abs(A(c["mu"]))
        pb = 1.5 + 2.0 * np.abs(np.diag(A(c["G"])))

        def f(x):
            x = np.asarray(x, dtype=float)
            return float(np.sum((pa - 1) * np.log(x) + (pb - 1) * np.log1p(-x))) + shift if np.all((x > 0) & (x < 1)) else -np.inf

        def g(x):
            x = np.asarray(x, dtype=float)
            return (pa - 1) / x - (pb - 1) / (1 - x) if np.all((x > 0) & (x < 1)) else np.full(n, np.nan)
        eps = c["eps_frac"] * 0.25
        draw0 = lambda rs: np.clip(rs.beta(pa, pb), 1e-12, 1 - 1e-12)
        whiten = lambda x: sps.norm.ppf(np.clip(sps.beta.cdf(x, pa, pb), 1e-300, 1 - 1e-16))
    else:
        a = c["ban_a"]
        f = lambda x: float(-0.5 * x[0] ** 2 - 0.5 * (x[1] - a * x[0] ** 2) ** 2) + shift
        g = lambda x: np.array([-x[0] + 2 * a * x[0] * (x[1] - a * x[0] ** 2), -(x[1] - a * x[0] ** 2)])
        eps = c["eps_frac"] * 0.7
        def draw0(rs):
            x1 = rs.standard_normal()
            return np.array([x1, a * x1 ** 2 + rs.standard_normal()])
        whiten = lambda x: np.array([x[0], x[1] - a * x[0] ** 2])
    target = cuqi.distribution.UserDefinedDistribution(dim=n, logpdf_func=f, gradient_func=g)
    # step size / configuration under test
    if c["history"] == "warmup" and c["interface"] == "experimental":
        np.random.seed(c["seed"] % (2 ** 31))
        s0 = cuqi.experimental.mcmc.NUTS(target, initial_point=draw0(np.random.RandomState(1)), max_depth=c["depth"])
        s0.warmup(60)
        state0 = s0.get_state()
        np.random.seed()
    elif c["history"] == "warmup":
        # legacy interface: the step size produced by its own warm-up, then held fixed
        np.random.seed(c["seed"] % (2 ** 31))
        s0 = cuqi.sampler.NUTS(target, x0=draw0(np.random.RandomState(1)), max_depth=c["depth"], adapt_step_size=True)
        s0.sample(2, 60)
        np.random.seed()
        state0 = None
        epsw = float(s0.epsilon_list[-1])
        if np.isfinite(epsw) and 0 < epsw < 0.999:
            eps = epsw
        rec.count("legacy_warmup_step_size_used")
    else:
        state0 = None

    def stat(R, seed):
        rs = np.random.RandomState(seed)
        np.random.seed((seed * 7 + 1) % (2 ** 31))
        W = np.zeros((R, n))
        try:
            if c["interface"] == "experimental":
                s = cuqi.experimental.mcmc.NUTS(target, initial_point=draw0(rs), max_depth=c["depth"], step_size=eps)
                s.initialize()
                s.sample(1)  # brings the sampler into its sampling phase (step size fixed)
                base = s.get_state()
                if state0 is not None:
                    base = {"metadata": state0["metadata"], "state": dict(state0["state"])}
                for r in range(R):
                    x = draw0(rs)
                    stt = {"metadata": base["metadata"], "state": dict(base["state"])}
                    stt["state"]["current_point"] = x.copy()
                    stt["state"]["current_target_logd"] = f(x)
                    stt["state"]["current_target_grad"] = g(x)
                    s.set_state(stt)
                    for _ in range(c["k"]):
                        s.step()
                    W[r] = whiten(np.asarray(s.current_point, dtype=float).reshape(-1))
            else:
                for r in range(R):
                    x = draw0(rs)
                    s = cuqi.sampler.NUTS(target, x0=x.copy(), max_depth=c["depth"], adapt_step_size=eps)
                    X = np.asarray(s.sample(c["k"] + 1).samples, dtype=float)
                    W[r] = whiten(X[:, -1])
        finally:
            np.random.seed()
        out = {}
        for i in range(n):
            out[f"ks[{i}]"] = stats.ks_uniform(sps.norm.cdf(W[:, i]))
            out[f"mean[{i}]"] = stats.z_mean(W[:, i], 0.0, 1.0)
            out[f"var[{i}]"] = stats.chi2_var(W[:, i], 0.0, 1.0)
        if n > 1:
            rho = float(np.mean(W[:, 0] * W[:, 1]))
            out["cross"] = float(2 * sps.norm.sf(abs(rho) * np.sqrt(R)))
        return out
    bad, report = stats.two_stage(stat, c["R"], seed=c["seed"])
    rec.note("replicates_stage1", c["R"])
    require(not bad, f"NUTS ({c['interface']}, {c['kind']} target, step {c['eps_frac']} x stability limit, depth {c['depth']}, {c['k']} transition(s), "
                     f"{c['history']}): the state after the transitions from exact target draws is not distributed as the target", pvalues=bad, report=report)


SUBCHECKS = [
    SubCheck("C08/tree_structure", run_det, strategy=det_cases, n={"quick": 6000, "thorough": 100000}, shards={"quick": 12, "thorough": 16}),
    SubCheck("C08/selection_law", run_selection, strategy=sel_cases, n={"quick": 32, "thorough": 128}, shards={"quick": 16, "thorough": 16}, shrink=False),
    SubCheck("C08/invariance", run_inv, strategy=inv_cases, n={"quick": 24, "thorough": 96}, shards={"quick": 12, "thorough": 16}, shrink=False),
]
