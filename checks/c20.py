"""C20 - difference operators and the MRF priors built on them have the documented structure.

Reference (independent of cuqi): D x = diff^order(pad_bc(x)) built densely, see `ref_D`.
The 1-D/2-D operator family is enumerated exhaustively inside the stated size bounds; the
priors are evaluated at Hypothesis-generated points with non-zero location.
"""
import itertools
import numpy as np
from hypothesis import strategies as st

from vlib.core import SubCheck, Violation, require, close, maxdiff, A, must, refuses

PROPERTY = "C20"
RULE = ("operators: exhaustive enumeration of (dimension 1D/2D, n, bc in zero/periodic/neumann/backward/none, "
        "order 0..2, dx); priors: Hypothesis draws (n, bc, order, prec/scale, location, x). A case is non-trivial "
        "when n >= 3 and the boundary rows differ from interior rows (bc != none/order != 0); distinct = distinct "
        "case dict (hash of the full generated input).")
ASSUMPTIONS = [
    "reference stencils: zero = differences of the zero-padded vector; periodic = each cyclic difference once; "
    "neumann = interior differences only; backward = x_i - x_{i-1} with x_{-1}=0; none = identity",
    "operators compared up to row order and row sign; the precision D^T D compared exactly",
]

BCS1 = ["zero", "periodic", "neumann", "backward", "none"]
BCS2 = ["zero", "periodic", "neumann"]


# ----------------------------------------------------------------------------- reference

def ref_D(n, bc, order):
    """Dense reference difference matrix, defined semantically by padding then np.diff."""
    I = np.eye(n)
    if order == 0 or bc == "none":
        return I
    rows = []
    for j in range(n):
        x = I[:, j]
        if bc == "zero":
            p = np.concatenate([np.zeros(order), x, np.zeros(order)])
            d = np.diff(p, order)
        elif bc == "periodic":
            # every cyclic difference exactly once
            d = x.copy()
            for _ in range(order):
                d = d - np.roll(d, 1)
        elif bc == "neumann":
            d = np.diff(x, order)
        elif bc == "backward":
            assert order == 1
            d = np.diff(np.concatenate([[0.0], x]))
        else:
            raise ValueError(bc)
        rows.append(d)
    return np.array(rows).T.reshape(-1, n)


def ref_D2(n, bc, order):
    D = ref_D(n, bc, order)
    I = np.eye(n)
    return np.vstack([np.kron(I, D), np.kron(D, I)])


def canon_rows(M):
    """Rows normalised in sign (first non-zero positive), rounded, sorted: equality up to order/sign."""
    M = np.asarray(M, dtype=float)
    out = []
    for r in M:
        nz = np.nonzero(np.abs(r) > 1e-12)[0]
        if len(nz) and r[nz[0]] < 0:
            r = -r
        out.append(tuple(np.round(r, 9) + 0.0))
    return sorted(out)


def ref_nullity(n, bc, order, pd):
    if order == 0 or bc in ("zero", "backward", "none"):
        return 0
    if bc == "periodic":
        return 1
    if bc == "neumann":
        k = min(order, n)  # polynomials of degree < order
        return k if pd == 1 else k * k
    raise ValueError


def dense(M):
    return M.toarray() if hasattr(M, "toarray") else np.asarray(M)


def make_op(n, bc, order, pd, dx=None):
    from cuqi.operator import FirstOrderFiniteDifference, SecondOrderFiniteDifference
    nn = n if pd == 1 else (n, n)
    if order == 1:
        return FirstOrderFiniteDifference(nn, bc_type=bc, dx=dx)
    return SecondOrderFiniteDifference(nn, bc_type=bc, dx=dx)


def tags_of(c):
    return {"pd": c["pd"], "bc": c["bc"], "order": c["order"]}


def nontrivial(c):
    return c["n"] >= 3 and c["bc"] != "none" and c["order"] != 0


# ----------------------------------------------------------------------------- sub-check 1: stencils

def enum_ops(tier):
    n1 = range(2, 25) if tier == "quick" else range(2, 49)
    n2 = range(2, 8) if tier == "quick" else range(2, 12)
    for n in n1:
        for bc in BCS1:
            for dx in (None, 0.5, 3.0):
                yield {"pd": 1, "n": n, "bc": bc, "order": 1, "dx": dx}
        for bc in BCS2:
            if bc == "neumann" and n < 3:
                continue
            for dx in (None, 0.5, 3.0):
                yield {"pd": 1, "n": n, "bc": bc, "order": 2, "dx": dx}
    for n in n2:
        for bc in BCS1:
            yield {"pd": 2, "n": n, "bc": bc, "order": 1, "dx": None}
        for bc in BCS2:
            if bc == "neumann" and n < 3:
                continue
            yield {"pd": 2, "n": n, "bc": bc, "order": 2, "dx": None}


def run_stencil(c, rec):
    if rec.classify(tags_of(c), nontrivial(c)):
        return
    n, bc, order, pd, dx = c["n"], c["bc"], c["order"], c["pd"], c["dx"]
    op = must(lambda: make_op(n, bc, order, pd, dx), "constructing the operator")
    M = dense(op.get_matrix())
    h = 1.0 if dx is None else dx
    if pd == 1:
        R = ref_D(n, bc, order) / h ** order
    else:
        R = ref_D2(n, bc, order)
        # documented Kronecker stacking of the library's own 1-D operator
        D1 = dense(make_op(n, bc, order, 1).get_matrix())
        K = np.vstack([np.kron(np.eye(n), D1), np.kron(D1, np.eye(n))])
        require(M.shape == K.shape and maxdiff(M, K) <= 1e-12,
                "2-D operator is not [I(x)D; D(x)I] of the 1-D operator", n=n, bc=bc, order=order)
    require(M.shape[1] == R.shape[1], "operator has wrong number of columns", got=M.shape, ref=R.shape)
    require(canon_rows(M) == canon_rows(R),
            f"difference operator differs from the reference stencil (bc={bc}, order={order}, n={n}, pd={pd})",
            got=M, ref=R)
    # operator algebra exposed to the priors
    x = np.cos(1.0 + np.arange(M.shape[1]) * 0.7)
    require(close(op @ x, M @ x, 1e-12), "op @ x != get_matrix() @ x")
    require(tuple(op.shape) == M.shape, "shape mismatch")
    require(maxdiff(dense(op.T), M.T) == 0, "T is not the transpose")
    require(int(op.dim) == M.shape[1], "dim is not the number of nodes")


# ----------------------------------------------------------------------------- sub-check 2: precision

def enum_prec(tier):
    n1 = range(2, 25) if tier == "quick" else range(2, 49)
    n2 = range(2, 8) if tier == "quick" else range(2, 12)
    for n in n1:
        for order in (0, 1, 2):
            for bc in (BCS1 if order == 1 else BCS2):
                if order == 2 and bc == "neumann" and n < 3:
                    continue
                yield {"pd": 1, "n": n, "bc": bc, "order": order}
    for n in n2:
        for order in (0, 1, 2):
            for bc in (BCS1 if order == 1 else BCS2):
                if order == 2 and bc == "neumann" and n < 3:
                    continue
                yield {"pd": 2, "n": n, "bc": bc, "order": order}


def doc_prec_zero(n, order):
    """The matrices printed in the GMRF docstring (1-D, zero boundary conditions)."""
    if order == 0:
        return np.eye(n)
    if order == 1:
        return 2 * np.eye(n) - np.eye(n, k=1) - np.eye(n, k=-1)
    return (6 * np.eye(n) - 4 * np.eye(n, k=1) - 4 * np.eye(n, k=-1) + np.eye(n, k=2) + np.eye(n, k=-2))


def null_basis_ok(P, n, bc, order, pd):
    """Check the documented null vectors are annihilated."""
    N = P.shape[0]
    vecs = []
    if order > 0 and bc in ("periodic", "neumann"):
        vecs.append(np.ones(N))
    if order == 2 and bc == "neumann":
        t = np.arange(n, dtype=float)
        if pd == 1:
            vecs.append(t)
        else:
            vecs.append(np.kron(np.ones(n), t))
            vecs.append(np.kron(t, np.ones(n)))
            vecs.append(np.kron(t, t))
    for v in vecs:
        if np.max(np.abs(P @ v)) > 1e-9 * max(1.0, np.max(np.abs(v))) * N:
            return False
    return True


def run_prec(c, rec):
    if rec.classify(tags_of(c), nontrivial(c)):
        return
    from cuqi.operator import PrecisionFiniteDifference
    n, bc, order, pd = c["n"], c["bc"], c["order"], c["pd"]
    nn = n if pd == 1 else (n, n)
    op = must(lambda: PrecisionFiniteDifference(nn, bc_type=bc, order=order), "constructing the precision")
    P = dense(op.get_matrix())
    D = dense(op._diff_op.get_matrix())
    require(maxdiff(P, D.T @ D) <= 1e-12, "precision is not D^T D of its own difference operator")
    R = ref_D(n, bc, order) if pd == 1 else ref_D2(n, bc, order)
    Pr = R.T @ R
    require(P.shape == Pr.shape and maxdiff(P, Pr) <= 1e-10,
            f"precision differs from reference D^T D (bc={bc}, order={order}, n={n}, pd={pd})", got=P, ref=Pr)
    if pd == 1 and bc == "zero":
        require(maxdiff(P, doc_prec_zero(n, order)) <= 1e-12, "precision differs from the matrix in the GMRF docstring")
    require(maxdiff(P, P.T) <= 1e-12, "precision not symmetric")
    w = np.linalg.eigvalsh((P + P.T) / 2)
    require(w.min() >= -1e-9 * max(1.0, w.max()), "precision not positive semi-definite", min_eig=w.min())
    nullity = int(np.sum(w <= 1e-9 * max(1.0, w.max())))
    require(nullity == ref_nullity(n, bc, order, pd),
            f"null space dimension {nullity} != {ref_nullity(n, bc, order, pd)} implied by bc={bc}, order={order}")
    require(null_basis_ok(P, n, bc, order, pd), "documented null vectors not annihilated")


# ----------------------------------------------------------------------------- sub-check 3: GMRF

def zero_sum_vector(dim, kind, c):
    """a non-zero location whose entries sum to exactly zero (alternating +-c, a centred ramp, two opposite spikes)"""
    if kind == "alternating" and dim % 2 == 0:
        return [c if i % 2 == 0 else -c for i in range(dim)]
    if kind == "ramp":
        return [c * (i - (dim - 1) / 2.0) for i in range(dim)]
    v = [0.0] * dim
    v[0], v[-1] = c, -c
    return v


@st.composite
def gmrf_cases(draw, tier="quick"):
    pd = draw(st.sampled_from([1, 1, 2]))
    if pd == 1:
        n = draw(st.integers(3, 14 if tier == "quick" else 40))
    else:
        n = draw(st.integers(2, 4 if tier == "quick" else 6))
    dim = n if pd == 1 else n * n
    bc = draw(st.sampled_from(BCS2))
    order = draw(st.sampled_from([0, 1, 2]))
    if order == 2 and bc == "neumann" and n < 3:
        n = 3
        dim = n if pd == 1 else n * n
    fl = st.floats(-3, 3, allow_nan=False, allow_subnormal=False, width=64)
    mean_kind = draw(st.sampled_from(["zero", "scalar", "vector", "zero_sum"]))
    mean = draw(st.lists(fl, min_size=dim, max_size=dim)) if mean_kind == "vector" else \
        (draw(fl) if mean_kind == "scalar" else 0.0)
    if mean_kind == "zero_sum":
        mean = zero_sum_vector(dim, draw(st.sampled_from(["alternating", "ramp", "spikes"])), draw(st.sampled_from([0.5, 1.0, 2.0])))
    x = draw(st.lists(fl, min_size=dim, max_size=dim))
    logprec = draw(st.floats(-3, 3, allow_nan=False, width=64))
    return {"pd": pd, "n": n, "bc": bc, "order": order, "mean": mean, "x": x, "prec": float(10 ** logprec)}


def make_geom(pd, n):
    import cuqi
    if pd == 1:
        return n
    return cuqi.geometry.Image2D((n, n))


def decoy_other_layout(pd, n, bc, order, family="GMRF"):
    """Before the object under test is built, build and use an MRF with the SAME number of nodes, boundary condition and order on
    the OTHER grid layout (n x n image <-> line of n*n nodes): anything the library remembers between objects under a key that
    does not tell the two apart would now be handed to the object under test."""
    import cuqi
    D = cuqi.distribution
    if pd == 2:
        geom, N = n * n, n * n
    else:
        r = int(round(np.sqrt(n)))
        if r * r != n or r < 2:
            return False
        geom, N = cuqi.geometry.Image2D((r, r)), n

    def build_and_use():
        if family == "GMRF":
            d = D.GMRF(np.zeros(N), 1.7, bc_type=bc, order=order, geometry=geom)
            _ = d.sqrtprec
        elif family == "LMRF":
            d = D.LMRF(0.0, 0.8, bc_type=bc, geometry=geom)
        else:
            d = D.CMRF(0.0, 0.8, bc_type=bc, geometry=geom)
        d.logd(np.linspace(0, 1, N))
        if family == "GMRF":
            d.sample(1, rng=np.random.RandomState(0))
    refused, _ = refuses(build_and_use)
    return not refused


def run_gmrf(c, rec):
    import cuqi
    tags = tags_of(c)
    if rec.classify(tags, nontrivial(c)):
        return
    n, bc, order, pd = c["n"], c["bc"], c["order"], c["pd"]
    dim = n if pd == 1 else n * n
    mean = A(c["mean"]) if isinstance(c["mean"], list) else c["mean"]
    x = A(c["x"])
    delta = c["prec"]
    if decoy_other_layout(pd, n, bc, order):
        rec.count("decoy_other_layout_built_first")
    G = must(lambda: cuqi.distribution.GMRF(mean, delta, bc_type=bc, order=order, geometry=make_geom(pd, n)),
             "constructing GMRF")
    mu = np.broadcast_to(np.asarray(mean, dtype=float), (dim,))
    R = ref_D(n, bc, order) if pd == 1 else ref_D2(n, bc, order)
    P = R.T @ R
    w = np.linalg.eigvalsh(P)
    tol_eig = 1e-9 * max(1.0, w.max())
    rank = int(np.sum(w > tol_eig))
    logpdet = float(np.sum(np.log(w[w > tol_eig])))
    r = x - mu
    ref_quad = -0.5 * delta * float(r @ P @ r)
    lx = float(G.logpdf(x))
    lm = float(G.logpdf(mu.copy()))
    # eigsh / regularised Cholesky inside the library -> relative 1e-6
    require(close(lx - lm, ref_quad, 1e-8), "GMRF quadratic form differs from -prec/2 (x-mean)^T D^T D (x-mean)",
            got=lx - lm, ref=ref_quad)
    if bc in ("periodic", "neumann") and order >= 1 and np.isfinite(lx):
        # an intrinsic field's density depends on differences only: a constant added to the field changes nothing (the quadratic
        # form goes through the difference operator, not through a regularised factor of the precision)
        for off in (30.0, 1.0e3):
            lo = float(G.logpdf(x + off))
            require(abs(lo - lx) <= 1e-9 * max(1.0, abs(lx)) + 1e-10 * delta * off * dim,
                    f"GMRF(bc={bc}, order={order}): the log-density changes when a constant is added to the field", offset=off, change=lo - lx)
    ref_const = 0.5 * (rank * (np.log(delta) - np.log(2 * np.pi)) + logpdet)
    require(close(lm, ref_const, 1e-6),
            f"GMRF normalising constant is not that of its precision (bc={bc}, order={order}, pd={pd}, n={n}): "
            f"reported rank={getattr(G, '_rank', None)}, true rank={rank}", got=lm, ref=ref_const)
    S = dense(G.sqrtprec)
    tolS = 1e-10 if bc == "zero" else 1e-6
    require(S.shape[1] == dim and close(S.T @ S, delta * P, tolS),
            "sqrtprec^T sqrtprec != prec * D^T D", err=maxdiff(S.T @ S, delta * P))
    if isinstance(c["mean"], list):
        require(close(must(lambda: G.sqrtprecTimesMean, "sqrtprecTimesMean"), S @ mu, 1e-10),
                "sqrtprecTimesMean != sqrtprec @ mean")
    # the same quantities after the parameters were re-assigned on the live object
    delta2 = delta * 3.5
    mu2 = mu + 0.25
    G.prec = delta2
    G.mean = mu2.copy()
    S2 = dense(G.sqrtprec)
    require(close(S2.T @ S2, delta2 * P, tolS), "after assigning prec: sqrtprec^T sqrtprec != prec * D^T D", err=maxdiff(S2.T @ S2, delta2 * P))
    require(close(G.sqrtprecTimesMean, S2 @ mu2, 1e-10), "after assigning mean/prec: sqrtprecTimesMean != sqrtprec @ mean")
    r2 = x - mu2
    require(close(float(G.logpdf(x)) - float(G.logpdf(mu2.copy())), -0.5 * delta2 * float(r2 @ P @ r2), 1e-8),
            "after assigning mean/prec: quadratic form does not follow the new parameters")


# ----------------------------------------------------------------------------- sub-check 4: LMRF / CMRF

@st.composite
def lc_cases(draw, tier="quick"):
    pd = draw(st.sampled_from([1, 1, 2]))
    n = draw(st.integers(2, 14 if tier == "quick" else 40)) if pd == 1 else draw(st.integers(2, 4 if tier == "quick" else 6))
    dim = n if pd == 1 else n * n
    # every boundary condition of the first-order difference operator (1-D: also 'backward' and 'none')
    bc = draw(st.sampled_from(["zero", "periodic", "neumann"] + (["backward", "none"] if pd == 1 else [])))
    fam = draw(st.sampled_from(["LMRF", "CMRF"]))
    fl = st.floats(-3, 3, allow_nan=False, allow_subnormal=False, width=64)
    loc_kind = draw(st.sampled_from(["zero", "scalar", "vector", "zero_sum"]))
    loc = draw(st.lists(fl, min_size=dim, max_size=dim)) if loc_kind == "vector" else \
        (draw(fl) if loc_kind == "scalar" else 0.0)
    if loc_kind == "zero_sum":
        loc = zero_sum_vector(dim, draw(st.sampled_from(["alternating", "ramp", "spikes"])), draw(st.sampled_from([0.5, 1.0, 2.0])))
    scale = float(10 ** draw(st.floats(-2, 2, allow_nan=False, width=64)))
    if draw(st.integers(0, 9)) == 0:
        # several hundred nodes (products of that many densities leave the double range; sums of their logarithms do not):
        # the field comes from a seeded stream instead of generated entries
        n = draw(st.sampled_from([400, 700])) if pd == 1 else draw(st.sampled_from([18, 26]))
        dim = n if pd == 1 else n * n
        loc = draw(fl) if loc_kind != "zero" else 0.0
        xs = draw(st.integers(0, 10 ** 6))
        x = [float(v) for v in np.random.RandomState(xs).uniform(-3, 3, dim)]
        return {"fam": fam, "pd": pd, "n": n, "bc": bc, "order": 1, "loc": loc, "x": x, "scale": scale, "large": True}
    x = draw(st.lists(fl, min_size=dim, max_size=dim))
    return {"fam": fam, "pd": pd, "n": n, "bc": bc, "order": 1, "loc": loc, "x": x, "scale": scale}


def run_lc(c, rec):
    import cuqi
    tags = dict(tags_of(c), fam=c["fam"])
    if c.get("large"):
        tags["large"] = True
    if rec.classify(tags, c["n"] >= 3):
        return
    n, bc, pd = c["n"], c["bc"], c["pd"]
    dim = n if pd == 1 else n * n
    loc = A(c["loc"]) if isinstance(c["loc"], list) else c["loc"]
    x = A(c["x"])
    b = c["scale"]
    cls = getattr(cuqi.distribution, c["fam"])
    dist = must(lambda: cls(loc, b, bc_type=bc, geometry=make_geom(pd, n)), "constructing " + c["fam"])
    R = ref_D(n, bc, 1) if pd == 1 else ref_D2(n, bc, 1)
    d = R @ (x - np.broadcast_to(np.asarray(loc, dtype=float), (dim,)))
    if c["fam"] == "LMRF":
        ref = -len(d) * np.log(2 * b) - np.sum(np.abs(d)) / b
    else:
        ref = float(np.sum(np.log(b / np.pi) - np.log(d ** 2 + b ** 2)))
    got = float(dist.logpdf(x))
    require(close(got, ref, 1e-9), f"{c['fam']} logpdf is not the documented density of the differences of x - location",
            got=got, ref=ref)
    # (pdf is evaluated as a product of two factors that leave the double range separately long before their product does:
    # it is compared where neither does)
    if hasattr(dist, "pdf") and abs(ref) < 200 and len(d) * abs(np.log(2 * b)) < 300:
        refused, pv = refuses(lambda: float(np.asarray(dist.pdf(x)).reshape(-1)[0]))
        if not refused:
            require(abs(pv - np.exp(ref)) <= 1e-9 * np.exp(ref), f"{c['fam']}.pdf is not exp(logpdf)", pdf=pv, exp_logpdf=float(np.exp(ref)))


# ----------------------------------------------------------------------------- non-square 2-D geometries

@st.composite
def nonsquare_cases(draw, tier="quick"):
    a, b = draw(st.sampled_from([(2, 8), (8, 2), (3, 12), (4, 9), (2, 3), (3, 5), (1, 4), (4, 1), (2, 18)]))
    return {"fam": draw(st.sampled_from(["LMRF", "CMRF", "GMRF"])), "shape": [a, b], "bc": draw(st.sampled_from(BCS2)),
            "level": float(10 ** draw(st.floats(-1, 1))), "x": draw(st.lists(st.floats(-2, 2, allow_nan=False, width=64), min_size=a * b, max_size=a * b))}


def run_nonsquare(c, rec):
    """the 2-D difference operators exist for square grids only: a Markov random field prior on an a x b geometry (a != b) must
    either be the documented density of the differences along both image axes or be refused - in particular when a*b happens
    to be a perfect square"""
    import cuqi
    a, b = c["shape"]
    tags = {"fam": c["fam"], "perfect_square": int(np.sqrt(a * b)) ** 2 == a * b, "bc": c["bc"]}
    if rec.classify(tags, True):
        return
    cls = getattr(cuqi.distribution, c["fam"])
    x = A(c["x"])
    refused, val = refuses(lambda: float(cls(0.0, c["level"], bc_type=c["bc"], geometry=cuqi.geometry.Image2D((a, b))).logpdf(x)))
    if refused:
        rec.count("refused")
        return
    # a value was returned: it must be the density on the a x b grid (differences along each axis with the stated bc)
    X = x.reshape(a, b)
    D1, D2 = ref_D(a, c["bc"], 1), ref_D(b, c["bc"], 1)
    d = np.concatenate([(D1 @ X).ravel(), (X @ D2.T).ravel()])
    if c["fam"] == "LMRF":
        ref = -len(d) * np.log(2 * c["level"]) - np.sum(np.abs(d)) / c["level"]
    elif c["fam"] == "CMRF":
        ref = float(np.sum(np.log(c["level"] / np.pi) - np.log(d ** 2 + c["level"] ** 2)))
    else:
        raise Violation(f"GMRF on a non-square {a}x{b} geometry returned a log-density ({val}) although its difference operators are defined for square grids only")
    require(close(val, ref, 1e-9), f"{c['fam']} on a non-square {a}x{b} geometry is not the density of the differences along the two image axes "
            "(was the field treated as a square grid?)", got=val, want=ref)


# ----------------------------------------------------------------------------- GMRF on large grids

@st.composite
def gmrf_large_cases(draw, tier="quick"):
    kind = draw(st.sampled_from(["2d_zero", "2d_zero", "1d_periodic", "1d_neumann", "1d_zero"]))
    if kind == "2d_zero":
        return {"pd": 2, "n": draw(st.sampled_from([20, 27, 30, 36])), "bc": "zero", "order": draw(st.sampled_from([1, 2])),
                "prec": float(10 ** draw(st.floats(-1, 1))), "seed": draw(st.integers(0, 10 ** 6))}
    bc = kind.split("_")[1]
    order = draw(st.sampled_from([1, 2])) if bc != "neumann" else 1      # (neumann, order 2 is a recorded finding)
    return {"pd": 1, "n": draw(st.sampled_from([300, 600, 640, 700])), "bc": bc, "order": order,
            "prec": float(10 ** draw(st.floats(-1, 1))), "seed": draw(st.integers(0, 10 ** 6))}


def run_gmrf_large(c, rec):
    """the normalising constant and quadratic form on grids large enough that determinants leave the double range and that
    the smallest non-zero eigenvalues of the periodic operators become small"""
    import cuqi
    n, bc, order, pd = c["n"], c["bc"], c["order"], c["pd"]
    if rec.classify({"pd": pd, "n": n, "bc": bc, "order": order}, True):
        return
    dim = n if pd == 1 else n * n
    rs = np.random.RandomState(c["seed"])
    x, mu = rs.uniform(-1, 1, dim), rs.uniform(-1, 1, dim)
    delta = c["prec"]
    G = must(lambda: cuqi.distribution.GMRF(mu.copy(), delta, bc_type=bc, order=order, geometry=make_geom(pd, n)), "constructing GMRF")
    R = ref_D(n, bc, order) if pd == 1 else ref_D2(n, bc, order)
    P = R.T @ R
    w = np.linalg.eigvalsh(P)
    null = ref_nullity(n, bc, order, pd)
    wpos = np.sort(w)[null:]
    require(wpos[0] > 1e-11 * wpos[-1], "harness: reference spectrum not separated from its null space", smallest=wpos[0])
    rank = dim - null
    logpdet = float(np.sum(np.log(wpos)))
    lm = float(G.logpdf(mu.copy()))
    ref_const = 0.5 * (rank * (np.log(delta) - np.log(2 * np.pi)) + logpdet)
    require(np.isfinite(lm) and abs(lm - ref_const) <= 1e-6 * abs(ref_const) + 1e-6,
            f"GMRF normalising constant on a large grid is not that of its precision (bc={bc}, order={order}, pd={pd}, n={n})", got=lm, ref=ref_const)
    r = x - mu
    ref_quad = -0.5 * delta * float(r @ P @ r)
    require(abs(float(G.logpdf(x)) - lm - ref_quad) <= 1e-7 * (1 + abs(ref_quad)), "GMRF quadratic form on a large grid differs from -prec/2 (x-mean)^T D^T D (x-mean)")


SUBCHECKS = [
    SubCheck("C20/gmrf_large", run_gmrf_large, strategy=gmrf_large_cases, n={"quick": 24, "thorough": 200}, shards={"quick": 8, "thorough": 16}, shrink=False,
             doc="GMRF constant and quadratic form on large grids (determinants beyond the double range, small periodic eigenvalues)"),
    SubCheck("C20/nonsquare_2d", run_nonsquare, strategy=nonsquare_cases, n={"quick": 200, "thorough": 2000}, shards={"quick": 2, "thorough": 4},
             doc="MRF priors on non-square 2-D geometries are refused or are the density on that grid"),
    SubCheck("C20/stencils", run_stencil, enum=enum_ops, exhaustive=True, shards={"quick": 4, "thorough": 16},
             doc="difference operators equal the reference stencils, 2-D = Kronecker stacking"),
    SubCheck("C20/precision", run_prec, enum=enum_prec, exhaustive=True, shards={"quick": 4, "thorough": 16},
             doc="precision = D^T D, symmetric PSD, null space as implied by bc"),
    SubCheck("C20/gmrf", run_gmrf, strategy=gmrf_cases, n={"quick": 600, "thorough": 12000},
             shards={"quick": 4, "thorough": 16}, doc="GMRF logpdf/sqrtprec/rank/logdet are those of prec * D^T D"),
    SubCheck("C20/lmrf_cmrf", run_lc, strategy=lc_cases, n={"quick": 600, "thorough": 12000},
             shards={"quick": 2, "thorough": 8}, doc="LMRF/CMRF evaluate x - location through the reference differences"),
]
