"""C16 - solvers return points that satisfy the optimality conditions of their problem."""
import numpy as np
from hypothesis import strategies as st

from vlib.core import SubCheck, Violation, require, close, maxdiff, A, must, refuses
from vlib import gen

PROPERTY = "C16"
RULE = ("Hypothesis draws well-conditioned A = U diag(s) V^T (U, V from QR of generated matrices, s in [1,10]), b, start "
        "vector x0, shift, sparse SPD preconditioner, prox kind/strength/box bounds, step size fraction below 1/||A||^2, "
        "operator form (matrix or forward/adjoint function), smooth least-squares residuals for LM and smooth objectives "
        "for the SciPy wrappers. Non-trivial: A rectangular or x0 != 0, and (shift>0 or preconditioner != I or the prox is "
        "active on >= 1 coordinate); distinct = distinct generated case.")
ASSUMPTIONS = ["'run to convergence' = tol 1e-12 / abstol 1e-13 with an iteration cap of 50n+200 (CGLS) / 40000 (FISTA); "
               "hitting the cap is counted inconclusive, never a violation",
               "numpy.linalg solve/pinv give the reference solutions"]


def orth(G):
    Q, _ = np.linalg.qr(np.array(G, dtype=float) + 1e-3 * np.eye(len(G)))
    return Q


@st.composite
def lin_cases(draw, tier="quick", nmin=1):
    hi = 7 if tier == "quick" else 14
    m = draw(st.integers(1, hi))
    n = draw(st.integers(nmin, hi))
    r = min(m, n)
    c = {"m": m, "n": n, "U": draw(gen.mat(m, m, -1, 1)), "V": draw(gen.mat(n, n, -1, 1)),
         "s": draw(st.lists(gen.fl(1.0, 10.0), min_size=r, max_size=r)),
         "b": draw(gen.vec(m)), "x0": draw(st.one_of(st.just([0.0] * n), gen.vec(n))),
         "form": draw(st.sampled_from(["matrix", "sparse", "function"])),
         # memory layout of the arrays handed to the solver (operator matrix, right-hand side, start vector)
         "layout": draw(st.sampled_from(gen.LAYOUTS)),
         # degenerate data: a zero right-hand side, or a start vector that already is the solution (zero residual at the first
         # iteration: the solution must come back, not nan from 0/0)
         "special": draw(st.sampled_from([None, None, None, None, "zero_rhs", "start_at_solution"])),
         # the same system in other units: operator times 10^Apow, data times 10^bpow (start vector and shift follow)
         "Apow": draw(st.sampled_from([0, 0, 0, -5, 5])), "bpow": draw(st.sampled_from([0, 0, 0, -6, 6])),
         # the requested relative tolerance (tight, or the 1e-6 a user would typically ask for)
         "tol": draw(st.sampled_from([1e-12, 1e-12, 1e-6])),
         # the number type in which the start vector is written (the problem does not depend on it)
         "x0_type": draw(st.sampled_from(["float64", "float64", "float64", "float32", "int"]))}
    return c


def build_A(c):
    U, V = orth(c["U"]), orth(c["V"])
    r = min(c["m"], c["n"])
    return gen.relayout(10.0 ** c.get("Apow", 0) * (U[:, :r] @ np.diag(c["s"]) @ V[:, :r].T), c.get("layout", "plain"))


def V(c, key):
    """a vector argument of the case in the case's memory layout (and units)"""
    f = 10.0 ** c.get("bpow", 0) if key == "b" else (10.0 ** (c.get("bpow", 0) - c.get("Apow", 0)) if key == "x0" else 1.0)
    return gen.relayout(f * A(c[key]), c.get("layout", "plain"))


@st.composite
def cgls_cases(draw, tier="quick"):
    c = draw(lin_cases(tier))
    c["shift"] = draw(st.sampled_from([0, 0, 0.1, 1.0, 7.5]))
    return c


def op_forms(Am, form):
    import scipy.sparse as sp
    if form == "matrix":
        return Am
    if form == "sparse":
        return sp.csr_matrix(Am)
    if form == "sparse_function":
        S = sp.csr_matrix(Am)
        return lambda x, flag: S @ x if flag == 1 else S.T @ x
    return lambda x, flag: Am @ x if flag == 1 else Am.T @ x


def other_form(form):
    """the other operator form over the *same* arithmetic (dense vs sparse products round differently)"""
    return {"matrix": "function", "function": "matrix", "sparse": "sparse_function"}[form]


def run_cgls(c, rec):
    import cuqi
    Am = build_A(c)
    m, n = Am.shape
    b, x0, s = V(c, "b"), V(c, "x0"), c["shift"] * 10.0 ** (2 * c.get("Apow", 0))
    if c.get("special") == "zero_rhs":
        b = gen.relayout(np.zeros(m), c.get("layout", "plain"))
    elif c.get("special") == "start_at_solution" and (m >= n or s > 0):
        x0 = gen.relayout(np.linalg.solve(Am.T @ Am + s * np.eye(n), Am.T @ b), c.get("layout", "plain"))
    tags = {"solver": "CGLS", "form": c["form"], "shape": "over" if m > n else ("under" if m < n else "square"),
            "shift": s > 0, "special": str(c.get("special"))}
    if rec.classify(tags, (m != n or np.any(x0 != 0)) and s > 0 or (m != n and np.any(x0 != 0))):
        return
    maxit = 50 * n + 200
    x0c, bc = x0.copy(), b.copy()
    tolr = float(c.get("tol", 1e-12))
    sol, k = must(lambda: cuqi.solver.CGLS(op_forms(Am, c["form"]), b, x0, maxit, tolr, s).solve(), "CGLS.solve")
    require(maxdiff(x0, x0c) == 0, "CGLS altered the start vector")
    require(maxdiff(b, bc) == 0, "CGLS altered the caller's right-hand side b", before=bc, after=b)
    # A has singular values in [1, 10]: conjugate gradients on the (shifted) normal equations reach 1e-12 in well under
    # 50 n + 200 iterations; a run that uses the whole budget returns a point that is not the solution
    if k >= maxit and m < n and s == 0:
        rec.inconc("cgls_iteration_cap_singular_normal_equations")   # under-determined without shift: A^T A is singular
        return
    require(k < maxit, "CGLS did not converge within 50 n + 200 iterations on a system with condition number <= 100", k=k, maxit=maxit, shift=s)
    H = Am.T @ Am + s * np.eye(n)
    g = Am.T @ b
    res = np.linalg.norm(H @ sol - g)
    scale = np.linalg.norm(g) + np.linalg.norm(H) * (np.linalg.norm(sol) + np.linalg.norm(x0)) + 1e-140
    require(res <= max(1e-8, 10 * tolr) * scale, "CGLS result does not solve (A^T A + shift I) x = A^T b to the requested tolerance",
            residual=res, scale=scale, k=k, tol=tolr, norm_of_result=float(np.linalg.norm(sol)))
    if m >= n or s > 0:
        ref = np.linalg.solve(H, g)
    else:
        ref = x0 + np.linalg.pinv(Am) @ (b - Am @ x0)
    require(maxdiff(sol, ref) <= max(1e-7, 1e4 * tolr) * (np.max(np.abs(ref)) + np.max(np.abs(x0))) + 1e-140, "CGLS result differs from the reference solution",
            got=sol, ref=ref, tol=tolr)
    if c.get("x0_type") == "float32":
        # data measured in single precision: the same numbers as float64 give the very same run
        b32 = np.asarray(b, dtype=np.float32)
        sol_d, k_d = cuqi.solver.CGLS(op_forms(Am, c["form"]), b32.astype(float), x0.copy(), maxit, tolr, s).solve()
        sol_s, k_s = must(lambda: cuqi.solver.CGLS(op_forms(Am, c["form"]), b32, x0.copy(), maxit, tolr, s).solve(), "CGLS.solve with a float32 data vector")
        require(k_s == k_d and maxdiff(sol_s, sol_d) <= 1e-13 * (np.max(np.abs(sol_d)) + np.max(np.abs(x0))) + 1e-140,
                "CGLS with the data vector stored as float32 differs from the run with the same numbers as float64", k=k_s, k_float64=k_d,
                diff=maxdiff(sol_s, sol_d))
    if c.get("x0_type", "float64") != "float64" and c.get("layout") != "readonly":
        # the same start vector written in another number type (float32, integers): the very same run
        xq = np.round(x0) if c["x0_type"] == "int" else x0.astype(np.float32).astype(float)
        sol_f, k_f = cuqi.solver.CGLS(op_forms(Am, c["form"]), b, xq.copy(), maxit, tolr, s).solve()
        x_t = xq.astype(int) if c["x0_type"] == "int" else xq.astype(np.float32)
        sol_t, k_t = must(lambda: cuqi.solver.CGLS(op_forms(Am, c["form"]), b, x_t, maxit, tolr, s).solve(), f"CGLS.solve from a {c['x0_type']} start vector")
        require(k_t == k_f and maxdiff(sol_t, sol_f) <= 1e-13 * (np.max(np.abs(sol_f)) + np.max(np.abs(xq))) + 1e-140,
                f"CGLS from a start vector written as {c['x0_type']} differs from the run from the same numbers as float64",
                k=k_t, k_float64=k_f, diff=maxdiff(sol_t, sol_f))
    # matrix form and function form: same iterates and count
    sol2, k2 = cuqi.solver.CGLS(op_forms(Am, other_form(c["form"])), b, x0, maxit, tolr, s).solve()
    require(k2 == k and maxdiff(sol2, sol) <= 1e-10 * (np.max(np.abs(sol)) + np.max(np.abs(x0))) + 1e-140, "matrix form and function form of CGLS disagree", k=k, k2=k2)


@st.composite
def pcgls_cases(draw, tier="quick"):
    c = draw(lin_cases(tier, nmin=2))  # a 1x1 sparse preconditioner is not invertible by scipy.sparse.linalg.inv
    n = c["n"]
    c["Pkind"] = draw(st.sampled_from(["identity", "diag", "tridiag", "upper_bidiag", "lower_tri"]))
    c["Pl"] = draw(gen.mat(n, n, -0.3, 0.3))
    c["Pd"] = draw(st.lists(gen.fl(0.5, 3.0), min_size=n, max_size=n))
    c["Po"] = draw(gen.fl(-0.2, 0.2))
    c["solve_branch"] = draw(st.booleans())
    c["pshift"] = draw(st.sampled_from([0.0, 0.0, 0.1, 1.0, 7.5]))
    c["Ppow"] = draw(st.sampled_from([0, 0, 0, 6, -6]))
    return c


def run_pcgls(c, rec):
    import cuqi
    import scipy.sparse as sp
    Am = build_A(c)
    m, n = Am.shape
    b, x0 = V(c, "b"), V(c, "x0")
    if c.get("special") == "zero_rhs":
        b = gen.relayout(np.zeros(m), c.get("layout", "plain"))
    elif c.get("special") == "start_at_solution" and m >= n:
        shs = float(c.get("pshift", 0.0)) * 10.0 ** (2 * c.get("Apow", 0))
        x0 = gen.relayout(np.linalg.solve(Am.T @ Am + shs * np.eye(n), Am.T @ b), c.get("layout", "plain"))
    if c["Pkind"] == "identity":
        P = np.eye(n)
    elif c["Pkind"] == "diag":
        P = np.diag(c["Pd"])
    elif c["Pkind"] == "tridiag":
        P = np.diag(c["Pd"]) + c["Po"] * (np.eye(n, k=1) + np.eye(n, k=-1))
    elif c["Pkind"] == "upper_bidiag":  # non-symmetric preconditioners exercise the adjoint application of P^-1
        P = np.diag(c["Pd"]) + 0.4 * np.eye(n, k=1)
    else:
        P = np.diag(c["Pd"]) + np.tril(A(c["Pl"]), -1)
    tags = {"solver": "PCGLS", "form": c["form"], "P": c["Pkind"], "shape": "over" if m > n else ("under" if m < n else "square"),
            "branch": "solve" if c.get("solve_branch") else "explicit_inverse", "special": str(c.get("special")), "shift": bool(c.get("pshift")),
            "Ppow": c.get("Ppow", 0)}
    if rec.classify(tags, c["Pkind"] != "identity" and (m != n or np.any(x0 != 0))):
        return
    maxit = 50 * n + 200
    # cuqi.config.MAX_DIM_INV (documented, modifiable): at and above it PCGLS applies the preconditioner by solves instead of
    # an explicit inverse; lowering it sends these small systems through the branch that dimensions >= 2000 take
    old_inv = cuqi.config.MAX_DIM_INV
    if c.get("solve_branch"):
        cuqi.config.MAX_DIM_INV = 1
    try:
        _run_pcgls_body(c, rec, Am, P, b, x0, m, n, maxit)
    finally:
        cuqi.config.MAX_DIM_INV = old_inv


def _run_pcgls_body(c, rec, Am, P, b, x0, m, n, maxit):
    import cuqi
    import scipy.sparse as sp
    bc0 = b.copy()
    # shift (Tikhonov term): accepted by the constructor like CGLS' - the shifted normal equations (A^T A + shift I) x = A^T b
    sh = float(c.get("pshift", 0.0)) * 10.0 ** (2 * c.get("Apow", 0))
    kw = {"shift": sh} if sh else {}
    Pm = P * 10.0 ** c.get("Ppow", 0)     # a preconditioner of another overall size preconditions the same system
    sol, k = must(lambda: cuqi.solver._solver.PCGLS(op_forms(Am, c["form"]), b, x0, sp.csc_matrix(Pm), maxit, 1e-12, **kw).solve(), "PCGLS.solve")
    require(maxdiff(b, bc0) == 0, "PCGLS altered the caller's right-hand side b")
    if k >= maxit and m < n and sh == 0:
        rec.inconc("pcgls_iteration_cap_singular_normal_equations")   # under-determined: A^T A is singular
        return
    require(k < maxit, "PCGLS did not converge within 50 n + 200 iterations on a well-conditioned system", k=k, maxit=maxit)
    H = Am.T @ Am + sh * np.eye(n)
    g = Am.T @ b - H @ sol
    scale = np.linalg.norm(Am.T @ b) + np.linalg.norm(H) * (np.linalg.norm(sol) + np.linalg.norm(x0)) + 1e-140
    require(np.linalg.norm(g) <= 1e-9 * scale, "PCGLS result does not solve the (shifted) normal equations (A^T A + shift I) x = A^T b",
            residual=np.linalg.norm(g), k=k, shift=sh)
    ref = np.linalg.solve(H, Am.T @ b) if (m >= n or sh > 0) else x0 + _min_P_correction(Am, Pm, b - Am @ x0)
    require(maxdiff(sol, ref) <= 1e-8 * (np.max(np.abs(ref)) + np.max(np.abs(x0))) + 1e-140, "PCGLS result differs from the reference solution", got=sol, ref=ref,
            shift=sh)
    sol2, k2 = cuqi.solver._solver.PCGLS(op_forms(Am, other_form(c["form"])), b, x0, sp.csc_matrix(Pm), maxit, 1e-12, **kw).solve()
    require(k2 == k and maxdiff(sol2, sol) <= 1e-10 * (np.max(np.abs(sol)) + np.max(np.abs(x0))) + 1e-140, "matrix form and function form of PCGLS disagree")


def _min_P_correction(Am, P, r):
    """x - x0 = P^{-1} y with y the minimum-norm solution of (A P^{-1}) y = r."""
    Pinv = np.linalg.inv(P)
    return Pinv @ (np.linalg.pinv(Am @ Pinv) @ r)


# ----------------------------------------------------------------------------- FISTA / ISTA

@st.composite
def fista_cases(draw, tier="quick"):
    c = draw(lin_cases(tier))
    n = c["n"]
    c["prox"] = draw(st.sampled_from(["l1", "l1", "nonneg", "box"]))
    c["lam"] = draw(st.sampled_from([0.01, 0.3, 1.0, 3.0]))
    c["lower"] = draw(gen.vec(n, -1.0, 0.5))
    c["width"] = draw(gen.vec(n, 0.0, 2.0))
    c["frac"] = draw(st.sampled_from([0.3, 0.9, 0.99]))
    c["adaptive"] = draw(st.booleans())
    c["d"] = draw(gen.vec(n, -1, 1))
    c["dscale"] = draw(st.sampled_from([1e-4, 1e-2, 1.0]))
    c["reassign"] = draw(st.booleans())
    c["x0_dtype"] = draw(st.sampled_from(["float64", "float64", "int", "float32"]))
    if c["form"] == "sparse":
        c["form"] = "matrix"
    return c


def make_prox(c):
    import cuqi
    lam = c["lam"]
    lo = A(c["lower"])
    up = lo + A(c["width"])
    if c["prox"] == "l1":
        return (lambda x, g: cuqi.solver.ProximalL1(x, lam * g)), (lambda x: lam * np.sum(np.abs(x))), (lambda z: z)
    if c["prox"] == "nonneg":
        return (lambda x, g: cuqi.solver.ProjectNonnegative(x)), (lambda x: 0.0), (lambda z: np.maximum(z, 0))
    return (lambda x, g: cuqi.solver.ProjectBox(x, lo, up)), (lambda x: 0.0), (lambda z: np.clip(z, lo, up))


def run_fista(c, rec):
    import cuqi
    Am = build_A(c)
    m, n = Am.shape
    b, x0 = V(c, "b"), V(c, "x0")
    if c.get("x0_dtype") == "int":
        x0 = np.round(x0).astype(int)        # a start vector written with integers
    elif c.get("x0_dtype") == "float32":
        x0 = x0.astype(np.float32)
    prox, reg, feas = make_prox(c)
    t = c["frac"] / np.linalg.norm(Am, 2) ** 2
    maxit = 40000
    if c.get("reassign"):
        # the solver object is built with another step size / proximal map and given the real ones through its attributes
        other_prox = (lambda x, g: cuqi.solver.ProximalL1(x, 3.0 * g)) if c["prox"] != "l1" else (lambda x, g: cuqi.solver.ProjectNonnegative(x))
        solver = cuqi.solver.FISTA(op_forms(Am, c["form"]), b, x0, proximal=other_prox, maxit=maxit, stepsize=0.37 * t, abstol=1e-13, adaptive=c["adaptive"])
        solver.stepsize = t
        solver.proximal = prox
    else:
        solver = cuqi.solver.FISTA(op_forms(Am, c["form"]), b, x0, proximal=prox, maxit=maxit, stepsize=t, abstol=1e-13, adaptive=c["adaptive"])
    b0 = b.copy()
    out = must(lambda: solver.solve(), "FISTA.solve")
    require(maxdiff(b, b0) == 0, "FISTA altered the caller's right-hand side b")
    require(isinstance(out, tuple) and len(out) == 2, "FISTA.solve did not return (solution, iterations)", got=repr(out)[:80])
    sol, k = out
    Tx = prox(sol - t * (Am.T @ (Am @ sol - b)), t)
    active = bool(np.any(np.abs(Tx - (sol - t * (Am.T @ (Am @ sol - b)))) > 1e-12))
    tags = {"solver": "FISTA" if c["adaptive"] else "ISTA", "prox": c["prox"], "form": c["form"], "reassigned": bool(c.get("reassign")),
            "x0_dtype": c.get("x0_dtype", "float64")}
    if rec.classify(tags, active and (m != n or np.any(x0 != 0))):
        return
    if c.get("x0_dtype", "float64") != "float64":
        # the same start vector written as float64: the very same iteration (the type of the start is not part of the problem)
        twin = cuqi.solver.FISTA(op_forms(Am, c["form"]), b, x0.astype(float), proximal=prox, maxit=maxit, stepsize=t, abstol=1e-13, adaptive=c["adaptive"])
        sol2, k2 = must(lambda: twin.solve(), "FISTA.solve")
        require(k2 == k and maxdiff(sol, sol2) <= 1e-12 * (1 + np.linalg.norm(sol2)),
                "FISTA from a start vector of another number type differs from the run from the same numbers as float64",
                dtype=c["x0_dtype"], k=k, k_float64=k2, diff=maxdiff(sol, sol2))
    if k >= maxit:
        rec.inconc("fista_iteration_cap")
        return
    fp = np.linalg.norm(Tx - sol)
    require(fp <= 1e-9 * (1 + np.linalg.norm(sol)), "FISTA result is not a fixed point of the proximal-gradient map",
            fixed_point_residual=fp, k=k)
    F = lambda x: 0.5 * np.sum((Am @ x - b) ** 2) + reg(x)
    z = feas(sol + c["dscale"] * A(c["d"]))
    require(F(sol) <= F(z) + 1e-9 * (1 + abs(F(z))), "a nearby feasible point has a smaller objective than the FISTA result",
            F_sol=F(sol), F_z=F(z))
    require(maxdiff(feas(sol), sol) <= 1e-12, "FISTA result is infeasible")


# ----------------------------------------------------------------------------- LM

@st.composite
def lm_cases(draw, tier="quick"):
    n = draw(st.integers(1, 5))
    m = draw(st.integers(n, n + 3))
    return {"n": n, "m": m, "U": draw(gen.mat(m, m, -1, 1)), "V": draw(gen.mat(n, n, -1, 1)),
            "s": draw(st.lists(gen.fl(1.0, 5.0), min_size=n, max_size=n)), "cc": draw(st.sampled_from([0.0, 0.3, 0.8, 2.5, 6.0])),
            "y": draw(gen.vec(m, -2, 2)), "x0": draw(gen.vec(n, -2, 2)), "sparse": draw(st.booleans()),
            "gradtol": draw(st.sampled_from([1e-8, 1e-5, 1e-3])),
            # the same problem translated: unknowns of magnitude 1e3 / 1e6
            "offset": draw(st.sampled_from([0.0, 0.0, 1e3, 1e6]))}


def run_lm(c, rec):
    import cuqi
    import scipy.sparse as sp
    B = build_A(c)
    m, n = B.shape
    cc, y, x0 = c["cc"], A(c["y"]), V(c, "x0")
    Pad = np.zeros((m, n))
    Pad[:n, :n] = np.eye(n)

    off = float(c.get("offset", 0.0))
    if off:
        x0 = x0 + off

    def res(x):
        x = np.asarray(x, dtype=float) - off
        return B @ x + cc * (Pad @ np.tanh(x)) - y

    def jac_dense(x):
        x = np.asarray(x, dtype=float) - off
        return B + cc * (Pad @ np.diag(1 - np.tanh(x) ** 2))

    jac = (lambda x: sp.csr_matrix(jac_dense(x))) if c["sparse"] else jac_dense
    tags = {"solver": "LM", "sparse": c["sparse"], "nonlinear": cc > 0, "offset": off}
    if rec.classify(tags, m > n or cc > 0):
        return
    g0 = np.linalg.norm(jac_dense(x0).T @ res(x0))
    if g0 < 1e-9:
        rec.inconc("lm_start_is_stationary")
        return
    maxit = 2000
    sol, info = must(lambda: cuqi.solver.LM(res, x0.copy(), jac, maxit=maxit, gradtol=c["gradtol"], sparse=c["sparse"]).solve(),
                     "LM.solve")
    if info["nfev"] >= maxit:
        rec.inconc("lm_iteration_cap")
        return
    g = np.linalg.norm(jac_dense(sol).T @ res(sol))
    require(g <= c["gradtol"] * g0 * (1 + 1e-6) + 1e-13, "LM result is not a stationary point of the sum of squares within gradtol",
            grad_norm=g, grad_norm0=g0, gradtol=c["gradtol"])
    require(close(np.asarray(info["func"]).ravel(), res(sol), 1e-10), "LM info['func'] is not the residual at the returned point")


# ----------------------------------------------------------------------------- SciPy wrappers

@st.composite
def wrap_cases(draw, tier="quick"):
    n = draw(st.integers(1, 5))
    return {"n": n, "G": draw(gen.mat(n, n, -1, 1)), "a": draw(gen.vec(n, -2, 2)), "q": draw(st.sampled_from([0.0, 0.1, 1.0])),
            "x0": draw(gen.vec(n, -2, 2)), "which": draw(st.sampled_from(["L_BFGS_B", "minimize", "maximize", "LS"])),
            "method": draw(st.sampled_from([None, "BFGS", "L-BFGS-B", "CG", "SLSQP", "TNC"])),
            "grad": draw(st.booleans()), "lsmethod": draw(st.sampled_from(["trf", "dogbox", "lm"])),
            "cuqiarray": draw(st.booleans())}


def run_wrap(c, rec):
    import cuqi
    import scipy.optimize as opt
    n = c["n"]
    H = gen.spd_from(c["G"], 0.5)
    a, q, x0 = A(c["a"]), c["q"], V(c, "x0")
    f = lambda x: float(0.5 * (x - a) @ H @ (x - a) + q * np.sum((x - a) ** 4))
    g = lambda x: H @ (x - a) + 4 * q * (x - a) ** 3
    tags = {"wrapper": c["which"], "method": str(c["method"]) if c["which"] in ("minimize", "maximize") else "-",
            "grad": c["grad"]}
    if rec.classify(tags, True):
        return
    gf = g if c["grad"] else None
    if c["which"] == "L_BFGS_B":
        sol, info = must(lambda: cuqi.solver.L_BFGS_B(f, x0.copy(), gradfunc=gf).solve(), "L_BFGS_B.solve")
        ref = opt.fmin_l_bfgs_b(f, x0.copy(), fprime=gf, approx_grad=0 if c["grad"] else 1)
        require(maxdiff(sol, ref[0]) == 0, "L_BFGS_B wrapper changed SciPy's solution", got=sol, ref=ref[0])
        require(info["func"] == ref[1] and info["nit"] == ref[2]["nit"] and info["nfev"] == ref[2]["funcalls"],
                "L_BFGS_B info differs from SciPy's result")
        require(maxdiff(info["grad"], ref[2]["grad"]) == 0, "L_BFGS_B info['grad'] differs")
        require(info["success"] == (1 if ref[2]["warnflag"] == 0 else 0), "L_BFGS_B success flag wrong")
        # bounds are SciPy's keyword; the same solver object asked three times gives SciPy's (bounded) result three times
        bnds = [(float(a[i]) - 0.3, float(a[i]) + 0.2 * (i + 1)) for i in range(n)]
        solver = cuqi.solver.L_BFGS_B(f, x0.copy(), gradfunc=gf, bounds=list(bnds))
        refb = opt.fmin_l_bfgs_b(f, x0.copy(), fprime=gf, approx_grad=0 if c["grad"] else 1, bounds=list(bnds))
        for rep in (1, 2, 3):
            solb, infob = must(lambda: solver.solve(), "L_BFGS_B.solve with bounds")
            require(maxdiff(np.asarray(solb), refb[0]) == 0, f"L_BFGS_B wrapper with bounds (solve call {rep} on the same object) is not SciPy's result",
                    got=solb, ref=refb[0])
    elif c["which"] in ("minimize", "maximize"):
        meth = c["method"]
        x_in = cuqi.array.CUQIarray(x0.copy(), geometry=cuqi.geometry.Continuous1D(n)) if c["cuqiarray"] else x0.copy()
        if c["which"] == "minimize":
            sol, info = must(lambda: cuqi.solver.minimize(f, x_in, gradfunc=gf, method=meth).solve(), "minimize.solve")
            ref = opt.minimize(f, x0.copy(), jac=gf, method=meth)
            sign = 1.0
        else:
            nf = lambda x: -f(x)
            ng = (lambda x: -g(x)) if gf is not None else None
            sol, info = must(lambda: cuqi.solver.maximize(nf, x_in, gradfunc=ng, method=meth).solve(), "maximize.solve")
            ref = opt.minimize(f, x0.copy(), jac=gf, method=meth)
            sign = 1.0  # the wrapper minimises -(-f) = f: identical trajectory, info reports the minimised function
        require(maxdiff(np.asarray(sol), ref["x"]) == 0, f"{c['which']} wrapper changed SciPy's solution", got=sol, ref=ref["x"])
        require(info["func"] == sign * ref["fun"] and info["nit"] == ref["nit"] and info["nfev"] == ref["nfev"],
                f"{c['which']} info differs from SciPy's result", info=str(info), ref=str(ref))
        require(info["success"] == ref["success"] and info["message"] == ref["message"], "success/message differ")
        if c["cuqiarray"]:
            require(isinstance(sol, cuqi.array.CUQIarray) and sol.geometry == x_in.geometry, "CUQIarray start vector: result not wrapped alike")
        if meth is None and c["which"] == "minimize":
            # keyword arguments are SciPy's: bounds, or a linear inequality constraint with no method named (SciPy then picks a method
            # that honours them); and the solver object may be asked to solve more than once
            lo, hi = a - 0.3, a + 0.2 * np.arange(1, n + 1)
            for label, kw in (("bounds", {"bounds": list(zip(lo, hi))}),
                              ("constraints", {"constraints": [{"type": "ineq", "fun": lambda x: 0.5 - np.sum(x - a), "jac": lambda x: -np.ones(n)}]})):
                solver = cuqi.solver.minimize(f, x0.copy(), gradfunc=gf, **kw)
                for rep in (1, 2, 3):
                    refk = opt.minimize(f, x0.copy(), jac=gf, **{k: (list(v) if k == "bounds" else v) for k, v in kw.items()})
                    solk, infok = must(lambda: solver.solve(), f"minimize.solve with {label}")
                    require(maxdiff(np.asarray(solk), refk["x"]) == 0 and infok["nit"] == refk["nit"],
                            f"minimize wrapper with {label} (solve call {rep} on the same object) is not SciPy's result", got=solk, ref=refk["x"])
    elif False:
        pass
    else:
        rfun = lambda x: np.linalg.cholesky(H).T @ (x - a) + q * np.sin(x - a)
        L = np.linalg.cholesky(H).T
        jfun = lambda x: L + q * np.diag(np.cos(x - a))
        sol, info = must(lambda: cuqi.solver.LS(rfun, x0.copy(), jacfun=jfun, method=c["lsmethod"]).solve(), "LS.solve")
        ref = opt.least_squares(rfun, x0.copy(), jac=jfun, method=c["lsmethod"], loss="linear", xtol=1e-6, max_nfev=10000)
        require(maxdiff(np.asarray(sol), ref["x"]) == 0, "LS wrapper changed SciPy's solution")
        require(info["nfev"] == ref["nfev"] and info["success"] == ref["success"] and info["message"] == ref["message"],
                "LS info differs from SciPy's result")
        require(maxdiff(info["func"], ref["fun"]) == 0, "LS info['func'] differs")


# ----------------------------------------------------------------------------- projections / prox

@st.composite
def proj_cases(draw, tier="quick"):
    n = draw(st.integers(1, 8))
    return {"x": draw(gen.vec(n, -3, 3)), "lower": draw(gen.vec(n, -2, 1)), "width": draw(gen.vec(n, 0, 2)),
            "gamma": draw(st.sampled_from([0.0, 0.1, 1.0, 2.5])), "c": draw(gen.vec(n, -3, 3)),
            "defaults": draw(st.sampled_from(["both", "lower", "upper", "none"]))}


def run_proj(c, rec):
    import cuqi
    x, lo = A(c["x"]), A(c["lower"])
    up = lo + A(c["width"])
    cc = A(c["c"])
    if rec.classify({"defaults": c["defaults"]}, True):
        return
    p = np.asarray(cuqi.solver.ProjectNonnegative(x.copy()))
    require(maxdiff(p, np.clip(x, 0, None)) == 0, "ProjectNonnegative is not the projection onto the non-negative orthant")
    feas = np.clip(cc, 0, None)
    require((x - p) @ (feas - p) <= 1e-12, "ProjectNonnegative violates the variational inequality")
    kw, l2, u2 = {}, np.zeros_like(x), np.ones_like(x)
    if c["defaults"] in ("both", "lower"):
        kw["lower"] = lo
        l2 = lo
    if c["defaults"] in ("both", "upper"):
        kw["upper"] = up
        u2 = up
    if np.all(l2 <= u2):
        p = np.asarray(cuqi.solver.ProjectBox(x.copy(), **kw))
        require(maxdiff(p, np.clip(x, l2, u2)) == 0, "ProjectBox is not the projection onto the documented box", got=p,
                want=np.clip(x, l2, u2))
        feas = np.clip(cc, l2, u2)
        require((x - p) @ (feas - p) <= 1e-12, "ProjectBox violates the variational inequality")
    g = c["gamma"]
    for xe, ge in ((np.where(np.arange(len(x)) % 2 == 0, 0.0, x), 0.0), (np.zeros_like(x), 0.0), (x, 0.0)):
        pe = np.asarray(cuqi.solver.ProximalL1(xe.copy(), ge))     # entries exactly zero, strength exactly zero: the identity
        require(np.all(np.isfinite(pe)) and maxdiff(pe, xe) == 0, "ProximalL1 with strength 0 is not the identity (exact zeros in the input)", got=pe, x=xe)
    p = np.asarray(cuqi.solver.ProximalL1(x.copy(), g))
    want = np.sign(x) * np.clip(np.abs(x) - g, 0, None)
    require(maxdiff(p, want) <= 1e-15, "ProximalL1 is not soft-thresholding")
    obj = lambda z: 0.5 * np.sum((z - x) ** 2) + g * np.sum(np.abs(z))
    require(obj(p) <= obj(cc) + 1e-12 and obj(p) <= obj(p + 1e-3 * cc) + 1e-12, "ProximalL1 output does not minimise the prox objective")


SUBCHECKS = [
    SubCheck("C16/cgls", run_cgls, strategy=cgls_cases, n={"quick": 600, "thorough": 12000}, shards={"quick": 4, "thorough": 16}),
    SubCheck("C16/pcgls", run_pcgls, strategy=pcgls_cases, n={"quick": 400, "thorough": 8000}, shards={"quick": 4, "thorough": 16}),
    SubCheck("C16/fista", run_fista, strategy=fista_cases, n={"quick": 200, "thorough": 4000}, shards={"quick": 4, "thorough": 16},
             shrink=False),
    SubCheck("C16/lm", run_lm, strategy=lm_cases, n={"quick": 1200, "thorough": 6000}, shards={"quick": 2, "thorough": 16}),
    SubCheck("C16/scipy_wrappers", run_wrap, strategy=wrap_cases, n={"quick": 300, "thorough": 6000}, shards={"quick": 4, "thorough": 16}),
    SubCheck("C16/projections", run_proj, strategy=proj_cases, n={"quick": 1000, "thorough": 20000}, shards={"quick": 2, "thorough": 8}),
]
