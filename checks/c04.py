"""C04 - log-densities are the documented normalised densities in every parameterisation."""
import numpy as np
import scipy.stats as sps
from hypothesis import strategies as st

from vlib.core import SubCheck, Violation, require, close, maxdiff, A, must, refuses
from vlib import gen, dists
from checks import c20

PROPERTY = "C04"
RULE = ("Hypothesis draws a family (Normal, Laplace, SmoothedLaplace, Cauchy, Gamma, InverseGamma, Beta, Uniform, Lognormal, "
        "ModifiedHalfNormal, user-defined; GMRF/LMRF/CMRF via the C20 generators), the way parameters are passed (vector, "
        "scalar broadcast over geometry=n or geometry=(a,b), list, callable conditioned later), parameter values and "
        "evaluation points inside and outside the support; for Gaussians one covariance rendered as cov/prec/sqrtcov/sqrtprec "
        "x scalar/vector/diagonal/dense/sparse with upper/lower/symmetric/general square roots on both sides of the "
        "dense/sparse switch. Non-trivial: dim>1 or a non-default parameterisation; distinct = distinct generated case.")
ASSUMPTIONS = ["scipy.stats densities / docstring formulas are the reference; tolerance 1e-9 relative (1e-7 through eigendecompositions)",
               "a NotImplementedError from logpdf (sparse full matrices without cholmod) is a refusal, not a value",
               "|logpdf| <= 600 so that the reference itself does not underflow"]


def _f(v):
    return float(np.asarray(v, dtype=float).reshape(-1)[0]) if np.size(v) == 1 else np.asarray(v, dtype=float)


# ----------------------------------------------------------------------------- univariate-type families

def run_family(c, rec):
    import cuqi
    fam, mode, n = c["fam"], c["mode"], c["dim"]
    tags = {"fam": fam, "mode": mode, "multi": n > 1}
    if c.get("magnitude"):
        tags["magnitude"] = c["magnitude"]
    if rec.classify(tags, n > 1 or mode != "vector"):
        return
    conditional = mode == "callable"
    if conditional and fam in ("InverseGamma", "Beta", "Uniform", "Lognormal", "ModifiedHalfNormal"):
        conditional = False
    spec = dict(c, mode="vector") if mode == "callable" else c
    refused, built = refuses(lambda: dists.build(spec, conditional=conditional))
    if refused:
        # (on the pinned tree every generated parameterisation of every family is accepted)
        raise Violation(f"constructing {fam} (mode {mode}) from documented parameters failed: {type(built).__name__}: {built}")
        return
    d, ref = built
    x = ref.inside(c["raw"])
    x2 = ref.inside(c["raw2"])
    want = ref.logpdf(x)
    if not np.isfinite(want) or abs(want) > 1e7:
        rec.inconc("reference_out_of_range")
        return
    refused, got = refuses(lambda: d.logpdf(x.copy()))
    if refused:
        if mode in ("vector",):
            raise Violation(f"{fam}.logpdf raised on a point of the support: {got}")
        rec.count("logpdf_refused")
        return
    got = np.asarray(got, dtype=float)
    require(got.size == 1, f"{fam}.logpdf does not return a scalar for one point", shape=got.shape, mode=mode)
    if ref.normalised():
        require(close(_f(got), want, 1e-9), f"{fam}.logpdf differs from the documented normalised density (mode={mode}, dim={n})",
                got=_f(got), want=want)
        if abs(want) < 600:
            pdf = must(lambda: d.pdf(x.copy()), "pdf")
            require(close(_f(pdf), np.exp(want), 1e-9), f"{fam}.pdf != exp(logpdf)")
    want2 = ref.logpdf(x2)
    got2 = _f(d.logpdf(x2.copy()))
    require(close(_f(got) - got2, want - want2, 1e-8), f"{fam}: log-density differences differ from the documented kernel",
            got=_f(got) - got2, want=want - want2)
    # un-normalised log-density differs by a constant in x
    ld1, ld2 = _f(d.logd(x.copy())), _f(d.logd(x2.copy()))
    require(close(ld1 - ld2, _f(got) - got2, 1e-9), f"{fam}: logd is not logpdf plus a constant in x")
    # outside the support the density vanishes
    xo = ref.outside(c["raw"])
    if xo is not None and fam != "ModifiedHalfNormal":
        with np.errstate(all="ignore"):
            refused, lo = refuses(lambda: d.logpdf(xo.copy()))
        if not refused:
            require(_f(lo) == -np.inf, f"{fam}.logpdf outside the support is not -inf", got=_f(lo), x=xo)


def run_cdf(c, rec):
    """cdf = integral of the density: for the independent families the product of the marginal cdfs"""
    fam, mode, n = c["fam"], c["mode"], c["dim"]
    tags = {"fam": fam, "mode": mode, "multi": n > 1}
    if rec.classify(tags, n > 1):
        return
    spec = dict(c, mode="vector") if mode == "callable" else c
    refused, built = refuses(lambda: dists.build(spec))
    if refused:
        raise Violation(f"constructing {fam} (mode {mode}) from documented parameters failed: {type(built).__name__}: {built}")
        return
    d, ref = built
    x, x2, xo = ref.inside(c["raw"]), ref.inside(c["raw2"]), ref.outside(c["raw"])
    for pt in (x, x2) + ((xo,) if xo is not None else ()):
        wc = ref.cdf(pt)
        refused, gc = refuses(lambda: d.cdf(pt.copy()))
        if refused:
            require(mode != "vector", f"{fam}.cdf raised: {gc}")
            rec.count("cdf_refused")
            return
        require(close(_f(gc), wc, 1e-9), f"{fam}.cdf is not the integral of the density (product of marginal cdfs)",
                got=_f(gc), want=wc, x=pt)


def run_user(c, rec):
    import cuqi
    n = len(c["a"])
    if rec.classify({"fam": "UserDefined"}, n > 1):
        return
    a = A(c["a"])
    f = lambda x: float(-0.5 * np.sum((np.asarray(x) - a) ** 2) - 0.1 * np.sum(np.asarray(x) ** 4))
    d = cuqi.distribution.UserDefinedDistribution(dim=n, logpdf_func=f)
    x = A(c["x"])
    require(_f(d.logpdf(x)) == f(x) and _f(d.logd(x)) == f(x), "UserDefinedDistribution does not evaluate the supplied log-density")
    require(d.dim == n, "UserDefinedDistribution dim wrong")


@st.composite
def user_cases(draw, tier="quick"):
    n = draw(st.integers(1, 5))
    return {"a": draw(gen.vec(n)), "x": draw(gen.vec(n))}


# ----------------------------------------------------------------------------- quadrature (dim = 1)

def run_quad(c, rec):
    from scipy.integrate import quad
    fam = c["fam"]
    if rec.classify({"fam": fam}, True):
        return
    d, ref = dists.build(c)
    if not ref.normalised():
        return
    s = c
    g = lambda k: float(np.array(s[k], dtype=float).reshape(-1)[0])
    lo, hi, brk = -np.inf, np.inf, []
    if fam in ("Gamma", "Lognormal"):
        lo = 0.0
    elif fam == "InverseGamma":
        lo = g("location")
    elif fam == "Beta":
        lo, hi = 0.0, 1.0
    elif fam == "Uniform":
        lo, hi = g("low"), g("low") + g("width")
    centre = ref.inside(np.zeros(1))[0]

    def pdf(t):
        with np.errstate(all="ignore"):
            v = d.logpdf(np.array([t]))
        v = _f(v)
        return float(np.exp(v)) if np.isfinite(v) else 0.0
    # heavy tails / endpoint singularities: split at the centre, generous limit
    cuts = [centre]
    if fam in ("Normal", "Laplace", "Cauchy"):
        # the density's mode (for Laplace: its kink) must be an interval end point, otherwise quad's error estimate is too
        # optimistic (seen at location=2^-9: integral 1.0000019 with claimed error 6e-11)
        cuts.append(g("mean") if fam == "Normal" else g("location"))
    cuts = sorted(set(x for x in cuts if lo < x < hi))
    ends = [lo] + cuts + [hi]
    pieces = list(zip(ends[:-1], ends[1:]))
    total, err = 0.0, 0.0
    for a_, b_ in pieces:
        if a_ == b_:
            continue
        v, e = quad(pdf, a_, b_, limit=400)
        total += v
        err += e
    if err > 1e-6 or not np.isfinite(total):
        rec.inconc("quadrature_error_estimate_too_large")
        return
    require(abs(total - 1.0) <= 1e-6 + 10 * err, f"{fam}: exp(logpdf) does not integrate to one over the support",
            integral=total, err=err)
    if ref.has_cdf() and hasattr(d, "cdf"):
        x = ref.inside(c["raw"])[0]
        ends2 = [lo] + [t for t in cuts if t < x] + [x]
        v, e = 0.0, 0.0
        for a_, b_ in zip(ends2[:-1], ends2[1:]):
            v1, e1 = quad(pdf, a_, b_, limit=400)
            v, e = v + v1, e + e1
        if e > 1e-6:
            rec.inconc("quadrature_error_estimate_too_large")
            return
        got = _f(d.cdf(np.array([x])))
        require(abs(got - v) <= 1e-6 + 10 * e, f"{fam}.cdf(x) is not the integral of the density up to x", got=got, integral=v)


@st.composite
def quad_cases(draw, tier="quick"):
    # SmoothedLaplace is documented as a *smoothed approximation* 1/(2b) exp(-sqrt((x-mu)^2+beta)/b): the documented formula
    # itself does not integrate to one, so only equality with the formula is checked (C04/families), not the integral.
    fams = [f for f in dists.UNIVARIATE_FAMILIES if f not in ("ModifiedHalfNormal", "SmoothedLaplace")]
    s = draw(dists.family_spec(families=fams, max_dim=1, modes=("vector",)))
    return s


# ----------------------------------------------------------------------------- Gaussian forms

SQRT_KINDS = ["chol_upper", "chol_lower", "symmetric", "general"]


@st.composite
def gauss_cases(draw, tier="quick"):
    n = draw(st.integers(2, 6))
    structure = draw(st.sampled_from(["scalar", "vector", "diagmatrix", "dense", "sparse"]))
    param = draw(st.sampled_from(["cov", "prec", "sqrtcov", "sqrtprec"]))
    c = {"n": n, "structure": structure, "param": param,
         "var": draw(st.lists(gen.logpos(-1.0, 1.0), min_size=n, max_size=n)),
         "G": draw(gen.mat(n, n, -1, 1)), "Q": draw(gen.mat(n, n, -1, 1)),
         "sqrt_kind": draw(st.sampled_from(SQRT_KINDS)),
         "mean_kind": draw(st.sampled_from(["zero", "scalar", "vector"])), "mean": draw(gen.vec(n)),
         "x": draw(gen.vec(n)), "x2": draw(gen.vec(n)),
         "sparse_switch": draw(st.sampled_from(["below", "above"])),
         "true_size": False,
         # overall scale of the standard deviations: 1, 1e-5 (covariance entries ~1e-10, off-diagonals below 1e-8), 1e3 or 1e9
         "scale_pow": draw(st.sampled_from([0, 0, 0, -5, 3, 9])),
         "sparse_format": draw(st.sampled_from(["csr", "csr", "csc", "dia", "coo"])),
         # integer-typed vector parameters (variances 1, 4, 9 ... written as ints, as an array or a list)
         "int_dtype": draw(st.sampled_from([False, False, False, True])), "as_list": draw(st.booleans()),
         # memory layout of dense matrix / vector arguments (Fortran order, non-contiguous view, negative strides, read-only)
         "layout": draw(st.sampled_from(gen.LAYOUTS))}
    if structure == "dense":
        # (LAPACK works in place on Fortran-ordered float64 matrices only: that layout gets more weight for dense matrices)
        c["layout"] = draw(st.sampled_from(["plain", "fortran", "fortran", "fortran", "strided", "reversed", "readonly"]))
    if c["int_dtype"] and structure == "vector" and param in ("cov", "prec"):
        ivals = [float(draw(st.integers(1, 9))) for _ in range(n)]
        c["var"] = ivals if param == "cov" else [1.0 / v for v in ivals]
        c["scale_pow"] = 0
    else:
        c["int_dtype"] = False
    sizes = [40, 60, 80] if tier == "quick" else [40, 60, 74, 75, 76, 90, 130]
    if draw(st.integers(0, 11 if tier == "quick" else 7)) == 0:
        # moderate and large true sizes (matrices from a seeded stream instead of generated entries): both sides of the real
        # threshold MIN_DIM_SPARSE = 75 in the thorough tier, and sizes where determinants leave the double range
        n = draw(st.sampled_from(sizes))
        c.update(n=n, true_size=True, var=draw(st.lists(gen.logpos(-0.5, 0.5), min_size=n, max_size=n)),
                 G=None, Q=None, mean=draw(gen.vec(n)), x=draw(gen.vec(n)), x2=draw(gen.vec(n)),
                 seedG=draw(st.integers(0, 10 ** 6)))
    return c


def gauss_sigma(c):
    return _gauss_sigma_unit(c) * 10.0 ** (2 * c.get("scale_pow", 0))


def _gauss_sigma_unit(c):
    n = c["n"]
    var = A(c["var"])
    st_ = c["structure"]
    if st_ == "scalar":
        return var[0] * np.eye(n)
    if st_ in ("vector", "diagmatrix"):
        return np.diag(var)
    if c.get("true_size"):
        G = np.random.RandomState(c["seedG"]).uniform(-1, 1, (n, n)) / np.sqrt(n)
        return G @ G.T + np.diag(var)
    return gen.spd_from(c["G"], 0.0) / n + np.diag(var)


def sqrt_of(M, kind, Qraw):
    """R with R^T R = M (the documented convention)"""
    L = np.linalg.cholesky(M)  # M = L L^T
    if kind == "chol_upper":
        return L.T
    if kind == "chol_lower":
        # lower-triangular R with R^T R = M: reverse-order Cholesky
        P = np.eye(len(M))[::-1]
        Lr = np.linalg.cholesky(P @ M @ P)
        return (P @ Lr @ P).T
    if kind == "symmetric":
        w, V = np.linalg.eigh(M)
        return V @ np.diag(np.sqrt(w)) @ V.T
    Q, _ = np.linalg.qr(np.array(Qraw, dtype=float) + 1e-3 * np.eye(len(M)))
    return Q @ L.T


def gauss_arg(c):
    """the argument handed to cuqi for the chosen parameterisation/structure"""
    import scipy.sparse as sp
    S = gauss_sigma(c)
    n, st_, par = c["n"], c["structure"], c["param"]
    M = S if par in ("cov", "sqrtcov") else np.linalg.inv(S)
    if st_ in ("scalar", "vector", "diagmatrix"):
        dvals = np.diag(M)
        if par in ("sqrtcov", "sqrtprec"):
            dvals = np.sqrt(dvals)
        if st_ == "scalar":
            return float(dvals[0])
        if st_ == "vector":
            if c.get("int_dtype") and np.all(dvals == np.round(dvals)):
                return [int(v) for v in dvals] if c.get("as_list") else dvals.astype(int)    # integer-typed variances / precisions
            return gen.relayout(dvals, c.get("layout", "plain"))
        return gen.relayout(np.diag(dvals), c.get("layout", "plain"))
    if par in ("sqrtcov", "sqrtprec"):
        Q = c["Q"] if not c.get("true_size") else np.random.RandomState(c["seedG"] + 1).uniform(-1, 1, (n, n))
        M = sqrt_of(M, c["sqrt_kind"], Q)
    if st_ == "sparse":
        # any scipy sparse format is a sparse matrix (scipy.sparse.diags returns the DIA format)
        return {"csr": sp.csr_matrix, "csc": sp.csc_matrix, "dia": sp.dia_matrix, "coo": sp.coo_matrix}[c.get("sparse_format", "csr")](M)
    return gen.relayout(M, c.get("layout", "plain"))


def superlu_reorders(c):
    """trigger of the recorded finding KF-C04-sparse-cholesky-reordering, computed by the harness: cuqi's sparse Cholesky
    work-around (utilities.sparse_cholesky) accepts a matrix only if SuperLU's row permutation is the identity, but SuperLU
    post-orders the elimination tree even with natural column ordering, so some sparse SPD matrices are rejected"""
    import scipy.sparse as sp
    import scipy.sparse.linalg as spl
    if c["structure"] != "sparse" or c["param"] not in ("cov", "prec") or c.get("true_size"):
        return False
    try:
        M = gauss_arg(c)
        n = M.shape[0]
        for Q in (sp.csc_matrix(M), sp.csc_matrix(spl.inv(sp.csc_matrix(M)))):
            LU = spl.splu(Q, diag_pivot_thresh=0, permc_spec="natural")
            if not np.all(LU.perm_r == np.arange(n)):
                return True
    except Exception:
        return False
    return False


def gauss_tags(c):
    t = {"param": c["param"], "structure": c["structure"], "switch": c["sparse_switch"] if not c.get("true_size") else "true_size",
         "scale_pow": c.get("scale_pow", 0)}
    if superlu_reorders(c):
        t["superlu_reorders"] = True
    if c["structure"] == "sparse":
        t["sparse_format"] = c.get("sparse_format", "csr")
    if c["param"] in ("sqrtcov", "sqrtprec") and c["structure"] in ("dense", "sparse"):
        t["sqrt_kind"] = c["sqrt_kind"]
    return t


def switch_independence(c, rec):
    """formula-free relation that holds whatever convention a parameterisation follows: the dense/sparse storage switch
    (cuqi.config.MIN_DIM_SPARSE) must not change the distribution. Runs for every class, also those under a recorded finding."""
    import cuqi
    n = c["n"]
    mean = {"zero": 0.0, "scalar": float(c["mean"][0]), "vector": A(c["mean"])}[c["mean_kind"]]
    mu = np.broadcast_to(np.asarray(mean, dtype=float), (n,))
    sc = 10.0 ** c.get("scale_pow", 0)
    x, x2 = mu + sc * A(c["x"]), mu + sc * A(c["x2"])
    old = cuqi.config.MIN_DIM_SPARSE
    vals = {}
    try:
        for sw, thr in (("below", 10 ** 6), ("above", 1)):
            cuqi.config.MIN_DIM_SPARSE = thr
            kw = {c["param"]: gauss_arg(c)}
            if c["mean_kind"] != "vector":
                kw["geometry"] = n
            refused, d = refuses(lambda: cuqi.distribution.Gaussian(mean, **kw))
            if refused:
                return
            refused, v = refuses(lambda: (_f(d.logpdf(x.copy())), _f(d.logpdf(x2.copy()))))
            if refused:
                return
            vals[sw] = v
    finally:
        cuqi.config.MIN_DIM_SPARSE = old
    (a1, a2), (b1, b2) = vals["below"], vals["above"]
    if not all(np.isfinite(t) for t in (a1, a2, b1, b2)):
        return
    require(close(a1, b1, 1e-7) and close(a1 - a2, b1 - b2, 1e-7),
            f"Gaussian({c['param']} given as {c['structure']}): the log-density changes with the dense/sparse storage threshold "
            "cuqi.config.MIN_DIM_SPARSE (the same input describes two different distributions)", below=(a1, a2), above=(b1, b2))


def sqrtcov_either_convention(c, rec):
    """the recorded finding KF-C04-sqrtcov-convention is about WHICH product of the factor is the covariance (documented R^T R,
    implemented R R^T). Whatever the convention, a non-symmetric square root must give the Gaussian of one of the two products -
    this still decides the class that the finding excludes from the main comparison."""
    import cuqi
    if not (c["param"] == "sqrtcov" and c["structure"] in ("dense", "sparse") and c["sqrt_kind"] != "symmetric") or c.get("true_size"):
        return
    n = c["n"]
    mean = {"zero": 0.0, "scalar": float(c["mean"][0]), "vector": A(c["mean"])}[c["mean_kind"]]
    mu = np.broadcast_to(np.asarray(mean, dtype=float), (n,))
    sc = 10.0 ** c.get("scale_pow", 0)
    x, x2 = mu + sc * A(c["x"]), mu + sc * A(c["x2"])
    old = cuqi.config.MIN_DIM_SPARSE
    try:
        if c["sparse_switch"] == "above":
            cuqi.config.MIN_DIM_SPARSE = 1
        R = gauss_arg(c)
        kw = {"sqrtcov": R}
        if c["mean_kind"] != "vector":
            kw["geometry"] = n
        refused, d = refuses(lambda: cuqi.distribution.Gaussian(mean, **kw))
        if refused:
            return
        refused, v = refuses(lambda: (_f(d.logpdf(x.copy())), _f(d.logpdf(x2.copy()))))
        if refused or not all(np.isfinite(t) for t in v):
            return
    finally:
        cuqi.config.MIN_DIM_SPARSE = old
    Rd = R.toarray() if hasattr(R, "toarray") else np.asarray(R, dtype=float)
    ok = False
    for S in (Rd.T @ Rd, Rd @ Rd.T):
        ref = sps.multivariate_normal(mu, S)
        if close(v[0], float(ref.logpdf(x)), 1e-7) and close(v[1], float(ref.logpdf(x2)), 1e-7):
            ok = True
    require(ok, f"Gaussian(sqrtcov=<{c['sqrt_kind']} square root, {c['structure']}>): the log-density is that of neither N(mean, R^T R) nor N(mean, R R^T)",
            got=v)


def run_gauss(c, rec):
    import cuqi
    tags = gauss_tags(c)
    if not c.get("true_size"):
        switch_independence(c, rec)
        sqrtcov_either_convention(c, rec)
    if rec.classify(tags, True):
        return
    n = c["n"]
    S = gauss_sigma(c)
    mean = {"zero": 0.0, "scalar": float(c["mean"][0]), "vector": A(c["mean"])}[c["mean_kind"]]
    mu = np.broadcast_to(np.asarray(mean, dtype=float), (n,))
    old = cuqi.config.MIN_DIM_SPARSE
    try:
        if not c.get("true_size") and c["sparse_switch"] == "above":
            cuqi.config.MIN_DIM_SPARSE = 1
        arg = gauss_arg(c)
        arg0 = arg.toarray().copy() if hasattr(arg, "toarray") else np.array(arg, dtype=float, copy=True)
        kw = {c["param"]: arg}
        if c["mean_kind"] != "vector":
            kw["geometry"] = n
        refused, d = refuses(lambda: cuqi.distribution.Gaussian(mean, **kw))
        if refused:
            rec.count("construction_refused:" + type(d).__name__)
            require(c["structure"] == "sparse" or not isinstance(d, Exception) or c["structure"] == "dense",
                    "constructing a Gaussian from diagonal data failed", err=str(d))
            if c["structure"] in ("scalar", "vector", "diagmatrix"):
                raise Violation(f"constructing Gaussian({c['param']}=..., {c['structure']}) failed: {d}")
            return
        sc = 10.0 ** c.get("scale_pow", 0)
        x, x2 = mu + sc * A(c["x"]), mu + sc * A(c["x2"])
        ref = sps.multivariate_normal(mu, S, allow_singular=False)
        want, want2 = float(ref.logpdf(x)), float(ref.logpdf(x2))
        if not (np.isfinite(want) and np.isfinite(want2)):
            rec.inconc("reference_not_finite")
            return
        refused, got = refuses(lambda: d.logpdf(x.copy()))
        if refused:
            require(isinstance(got, NotImplementedError), "Gaussian.logpdf raised something other than a refusal", err=repr(got))
            rec.count("logpdf_refused")
            return
        tol = 1e-9 if tags["switch"] == "below" else 1e-7
        require(close(_f(got), want, tol),
                f"Gaussian logpdf differs from N(mean, Sigma) for {c['param']} given as {c['structure']}"
                + (f" ({c['sqrt_kind']} square root)" if "sqrt_kind" in tags else "") + f", switch={tags['switch']}",
                got=_f(got), want=want)
        got2 = _f(d.logpdf(x2.copy()))
        require(close(_f(got) - got2, want - want2, tol), "Gaussian log-density differences wrong")
        ld = _f(d.logd(x.copy())) - _f(d.logd(x2.copy()))
        require(close(ld, want - want2, tol), "Gaussian logd is not logpdf plus a constant")
        # the caller's matrix / vector is still what the caller passed, and the object reports that parameter
        argn = arg.toarray() if hasattr(arg, "toarray") else np.asarray(arg, dtype=float)
        require(maxdiff(argn, arg0) == 0, f"constructing / evaluating Gaussian({c['param']}=...) altered the array that was passed in",
                structure=c["structure"], layout=c.get("layout"), n=n)
        rep = getattr(d, c["param"], None)
        if rep is not None and not callable(rep):
            repn = rep.toarray() if hasattr(rep, "toarray") else np.asarray(rep, dtype=float)
            if repn.shape == arg0.shape:
                require(maxdiff(repn, arg0) <= 1e-12 * (1 + float(np.max(np.abs(arg0)))), f"Gaussian.{c['param']} does not report the parameter "
                        "it was given", layout=c.get("layout"), n=n)
        # derived quantities denote the same distribution
        sp_ = d.sqrtprec
        sp_ = sp_.toarray() if hasattr(sp_, "toarray") else np.asarray(sp_)
        require(close(sp_.T @ sp_, np.linalg.inv(S), 1e-6), "sqrtprec^T sqrtprec is not the precision of the specified Gaussian")
        require(close(float(np.asarray(d.logdet).reshape(-1)[0]), float(np.linalg.slogdet(S)[1]), 1e-7), "logdet is not log det(Sigma)")
        # the covariance the cdf is computed from, and the cdf itself (scipy's Genz integration: loose tolerance)
        cov = must(lambda: d.compute_cov(), "compute_cov")
        cov = cov.toarray() if hasattr(cov, "toarray") else np.asarray(cov, dtype=float)
        require(cov.shape == S.shape and maxdiff(cov, S) <= 1e-6 * float(np.max(np.abs(S))), "compute_cov() is not the covariance of the specified Gaussian", got=cov, want=S)
        if n <= 3 and hasattr(d, "cdf"):
            refused, gc = refuses(lambda: d.cdf(x.copy()))  # a scalar-stored mean is refused by scipy: no value, no claim
            if not refused:
                wc = float(sps.multivariate_normal(mu, S).cdf(x))
                require(abs(_f(gc) - wc) <= 2e-3, "Gaussian.cdf is not the integral of the density", got=_f(gc), want=wc)
            else:
                rec.count("cdf_refused")
    finally:
        cuqi.config.MIN_DIM_SPARSE = old


# ----------------------------------------------------------------------------- parameters re-assigned on a live object

@st.composite
def reassign_cases(draw, tier="quick"):
    kind = draw(st.sampled_from(["family", "family", "gaussian", "gmrf"]))
    if kind == "family":
        s1 = draw(dists.family_spec(max_dim=4, modes=("vector", "scalar")))
        s2 = dict(s1)
        keys = [k for k in s1 if k in ("mean", "std", "location", "scale", "shape_", "rate", "alpha", "beta", "low", "width", "var")
                and isinstance(s1[k], list)]
        if s1["fam"] == "Laplace":
            keys = [k for k in keys if k != "scale"] + ["scale"]
        nchange = draw(st.integers(1, len(keys)))
        for k in draw(st.permutations(keys))[:nchange]:
            v = list(s1[k])
            idx = draw(st.lists(st.integers(0, len(v) - 1), min_size=1, max_size=len(v), unique=True))  # only some components move
            for i in idx:
                v[i] = float(draw(gen.logpos(-1, 1))) if k in ("std", "scale", "shape_", "rate", "alpha", "beta", "width", "var") else float(draw(gen.fl(-3, 3)))
            s2[k] = v
        return {"kind": kind, "s1": s1, "s2": s2, "warm": draw(st.booleans())}
    if kind == "gaussian":
        g = draw(gauss_cases("quick"))   # (the thorough tier's true-size variant carries no generated matrices)
        n = g["n"]
        g2 = dict(g)
        g2["var"] = draw(st.lists(gen.logpos(-1.0, 1.0), min_size=n, max_size=n))
        if draw(st.booleans()):
            # the new value may have another structure than the old one (a scalar replaced by a full matrix, ...)
            g2["structure"] = draw(st.sampled_from(["scalar", "vector", "diagmatrix", "dense", "dense", "sparse"]))
            g2["sqrt_kind"] = draw(st.sampled_from(SQRT_KINDS))
        if draw(st.booleans()):
            m2 = list(g["mean"])
            m2[0] = draw(gen.fl(-3, 3))
            g2["mean"] = m2
            g2["mean_kind"] = g["mean_kind"] = "vector"
        return {"kind": kind, "s1": g, "s2": g2, "warm": draw(st.booleans())}
    m = draw(c20.gmrf_cases(tier))
    m["mean"] = draw(gen.vec(m["n"] if m["pd"] == 1 else m["n"] ** 2, -2, 2))
    m2 = dict(m)
    mm = list(m["mean"])
    mm[0] = draw(gen.fl(-3, 3))
    m2["mean"] = mm
    m2["prec"] = float(draw(gen.logpos(-2, 2)))
    return {"kind": kind, "s1": m, "s2": m2, "warm": draw(st.booleans())}


def _build_any(kind, s):
    import cuqi
    if kind == "family":
        return dists.build(s)[0]
    if kind == "gaussian":
        n = s["n"]
        mean = {"zero": 0.0, "scalar": float(s["mean"][0]), "vector": A(s["mean"])}[s["mean_kind"]]
        kw = {s["param"]: gauss_arg(s)}
        if s["mean_kind"] != "vector":
            kw["geometry"] = n
        return cuqi.distribution.Gaussian(mean, **kw)
    c20.decoy_other_layout(s["pd"], s["n"], s["bc"], s["order"])
    return cuqi.distribution.GMRF(A(s["mean"]), s["prec"], bc_type=s["bc"], order=s["order"], geometry=c20.make_geom(s["pd"], s["n"]))


def run_reassign(c, rec):
    """assigning new parameter values to a live distribution gives the distribution with those parameters"""
    import cuqi
    kind, s1, s2 = c["kind"], c["s1"], c["s2"]
    fam = s1.get("fam", kind)
    tags = {"kind": kind, "fam": fam, "warm": c["warm"]}
    if kind == "gmrf":
        tags.update(bc=s1["bc"], order=s1["order"])
    if kind == "gaussian":
        tags.update(param=s1["param"], structure=s2["structure"], structure_before=s1["structure"])
        if s1["param"] in ("sqrtcov", "sqrtprec") and s2["structure"] in ("dense", "sparse"):
            tags["sqrt_kind"] = s2["sqrt_kind"]
        if superlu_reorders(s1) or superlu_reorders(s2):
            tags["superlu_reorders"] = True
    if rec.classify(tags, True):
        return
    old = cuqi.config.MIN_DIM_SPARSE
    try:
        if kind == "gaussian" and s1["sparse_switch"] == "above":
            cuqi.config.MIN_DIM_SPARSE = 1
        refused, d1 = refuses(lambda: _build_any(kind, s1))
        refused2, d2 = refuses(lambda: _build_any(kind, s2))
        if refused or refused2:
            raise Violation(f"constructing {fam} from documented parameters failed: {d1 if refused else d2}")
            return
        x = dists.Reference(s2).inside(s2["raw"]) if kind == "family" else A(s2["x"])
        if c["warm"]:  # exercise caches before the assignment
            refuses(lambda: d1.logd(x.copy()))
            refuses(lambda: d1.gradient(x.copy()))
            if hasattr(d1, "cdf"):
                refuses(lambda: d1.cdf(x.copy()))
        for name in [v for v in d1.get_mutable_variables() if not v.startswith("_")]:  # the public parameters only
            refused, _ = refuses(lambda: setattr(d1, name, getattr(d2, name)))
            if refused:
                rec.count("assignment_refused")
                return
        refused, want = refuses(lambda: d2.logpdf(x.copy()))
        if refused or not np.all(np.isfinite(np.asarray(want, dtype=float))):
            rec.count("fresh_object_refuses_or_not_finite")
            return
        got = must(lambda: d1.logpdf(x.copy()), "logpdf after re-assigning the parameters")
        require(close(_f(got), _f(want), 1e-10), f"{fam}: after assigning new parameter values the log-density is not that of the distribution with those parameters",
                got=_f(got), want=_f(want))
        if kind == "family" and dists.Reference(s2).normalised():
            require(close(_f(got), dists.Reference(s2).logpdf(x), 1e-9), f"{fam}: re-assigned distribution differs from the reference density")
        if kind == "gaussian":
            dn = lambda M: M.toarray() if hasattr(M, "toarray") else np.asarray(M, dtype=float)
            cov1 = dn(must(lambda: d1.compute_cov(), "compute_cov"))
            cov2 = dn(d2.compute_cov())
            require(cov1.shape == cov2.shape and maxdiff(cov1, cov2) <= 1e-8 * float(np.max(np.abs(cov2))),
                    "Gaussian.compute_cov after re-assignment is not the covariance of the new parameters")
    finally:
        cuqi.config.MIN_DIM_SPARSE = old


# ----------------------------------------------------------------------------- hierarchical parameters: conditioned siblings

SIB_KINDS = ["gaussian2", "gaussian_shared", "normal", "gamma", "laplace", "gmrf", "lmrf", "cmrf", "lognormal"]


@st.composite
def sibling_cases(draw, tier="quick"):
    n = draw(st.integers(2, 5))
    return {"kind": draw(st.sampled_from(SIB_KINDS)), "n": n, "mean": draw(gen.vec(n, -1, 1)), "u": draw(gen.vec(n, -1, 1)),
            "var": draw(st.lists(gen.logpos(-0.7, 0.5), min_size=n, max_size=n)), "x": draw(gen.vec(n, -1.5, 1.5)),
            "v1": [draw(gen.logpos(-0.6, 0.8)), draw(gen.logpos(-0.6, 0.8))], "v2": [draw(gen.logpos(-0.6, 0.8)), draw(gen.logpos(-0.6, 0.8))],
            "bc": draw(st.sampled_from(["zero", "periodic", "neumann"])), "order": draw(st.sampled_from([1, 2])),
            "kw_order": draw(st.sampled_from(["signature", "reversed"])), "steps": draw(st.sampled_from(["one", "two"]))}


def _sibling_objects(c):
    """returns (conditional distribution, argument names, direct(values) -> the same distribution built from plain values)"""
    import cuqi
    D = cuqi.distribution
    n, kind = c["n"], c["kind"]
    mean, u, var = A(c["mean"]), A(c["u"]), A(c["var"])
    if kind == "gaussian2":
        cond = D.Gaussian(mean.copy(), cov=lambda s, t: s * t * var, geometry=n)
        return cond, ["s", "t"], lambda v: D.Gaussian(mean.copy(), cov=v[0] * v[1] * var)
    if kind == "gaussian_shared":
        # two callables sharing their arguments, listed in different orders
        cond = D.Gaussian(mean=lambda s, t: s * mean + t * u, cov=lambda t, s: (s + 2 * t) * var, geometry=n)
        return cond, ["s", "t"], lambda v: D.Gaussian(v[0] * mean + v[1] * u, cov=(v[0] + 2 * v[1]) * var)
    if kind == "normal":
        cond = D.Normal(mean=lambda s: s * mean, std=lambda t: t * np.sqrt(var), geometry=n)
        return cond, ["s", "t"], lambda v: D.Normal(v[0] * mean, v[1] * np.sqrt(var))
    if kind == "gamma":
        cond = D.Gamma(shape=lambda s: s * var, rate=lambda t: t * (1 + var), geometry=n)
        return cond, ["s", "t"], lambda v: D.Gamma(v[0] * var, v[1] * (1 + var))
    if kind == "laplace":
        cond = D.Laplace(location=lambda s: s * mean, scale=lambda t: t, geometry=n)
        return cond, ["s", "t"], lambda v: D.Laplace(v[0] * mean, v[1])
    if kind == "gmrf":
        cond = D.GMRF(mean.copy(), prec=lambda s: s, bc_type=c["bc"], order=c["order"], geometry=n)
        return cond, ["s"], lambda v: D.GMRF(mean.copy(), v[0], bc_type=c["bc"], order=c["order"], geometry=n)
    if kind == "lmrf":
        cond = D.LMRF(mean.copy(), scale=lambda s: s, bc_type=c["bc"], geometry=n)
        return cond, ["s"], lambda v: D.LMRF(mean.copy(), v[0], bc_type=c["bc"], geometry=n)
    if kind == "cmrf":
        cond = D.CMRF(mean.copy(), scale=lambda s: s, bc_type=c["bc"], geometry=n)
        return cond, ["s"], lambda v: D.CMRF(mean.copy(), v[0], bc_type=c["bc"], geometry=n)
    Dm = np.diag(var)
    cond = D.Lognormal(mean.copy(), cov=lambda s: s * Dm, geometry=n)
    return cond, ["s"], lambda v: D.Lognormal(mean.copy(), v[0] * Dm)


def run_siblings(c, rec):
    """a distribution with hyper-parameters entering through callables, conditioned on two different sets of values: each
    conditioned copy must be the distribution with those values (keywords in any order, in one step or two), and must stay
    that when its sibling is created and evaluated"""
    kind = c["kind"]
    tags = {"kind": kind, "kw_order": c["kw_order"], "steps": c["steps"]}
    if kind in ("gmrf", "lmrf", "cmrf"):
        tags["bc"] = c["bc"]
    if rec.classify(tags, True):
        return
    if kind == "gmrf" and c["bc"] == "neumann" and c["order"] == 2:
        # recorded finding KF-C20-gmrf-rank-neumann2: the log-determinant of this class is numerical garbage (two objects with
        # identical parameters disagree), so a differential comparison says nothing; the class is decided in C04/gmrf, C20/gmrf
        c = dict(c, order=1)
    cond, names, direct = must(lambda: _sibling_objects(c), "building the conditional distribution")
    x = np.exp(A(c["x"])) if kind in ("gamma", "lognormal") else A(c["x"])

    def condition(vals):
        kw = dict(zip(names, vals[:len(names)]))
        keys = list(kw) if c["kw_order"] == "signature" else list(reversed(list(kw)))
        if c["steps"] == "two" and len(keys) == 2:
            return cond(**{keys[0]: kw[keys[0]]})(**{keys[1]: kw[keys[1]]})
        return cond(**{k: kw[k] for k in keys})

    def val(d):
        with np.errstate(all="ignore"):
            return _f(d.logpdf(x.copy()))
    v1, v2 = c["v1"], c["v2"]
    a = must(lambda: condition(v1), "conditioning on the first set of values")
    wa = val(must(lambda: direct(v1), "building the distribution directly"))
    la1 = val(a)
    require(close(la1, wa, 1e-10), f"{kind}: the distribution conditioned on its hyper-parameters is not the distribution built with those values",
            conditioned=la1, direct=wa, values=dict(zip(names, v1)))
    b = must(lambda: condition(v2), "conditioning on the second set of values")
    wb = val(direct(v2))
    lb = val(b)
    require(close(lb, wb, 1e-10), f"{kind}: a second conditioned copy (other values) is not the distribution built with its values",
            conditioned=lb, direct=wb, values=dict(zip(names, v2)), first_values=dict(zip(names, v1)))
    la2 = val(a)
    require(close(la2, la1, 1e-12), f"{kind}: the first conditioned copy changed after a sibling was created and evaluated", before=la1, after=la2)
    # everything in one evaluation of the conditional distribution
    refused, lall = refuses(lambda: _f(cond.logd(**dict(zip(names, v1[:len(names)])), **{cond.name if cond._name else "x": x.copy()})))
    if not refused and np.isfinite(lall) and np.isfinite(wa):
        wd = _f(direct(v1).logd(x.copy()))
        require(close(lall, wd, 1e-10), f"{kind}: evaluating the conditional distribution with all values at once differs from the direct distribution",
                got=lall, want=wd)


# ----------------------------------------------------------------------------- Uniform: volume of the box

@st.composite
def uniform_cases(draw, tier="quick"):
    n = draw(st.sampled_from([1, 2, 3, 5, 12, 19, 20, 30, 64]))
    kind = draw(st.sampled_from(["int_scalars", "float_scalars", "int_array", "float_array"]))
    lo = draw(st.integers(-9, 5))
    w = draw(st.integers(1, 12))
    return {"n": n, "kind": kind, "low": lo, "width": w, "frac": draw(st.lists(st.floats(0.05, 0.95), min_size=n, max_size=n))}


def run_uniform(c, rec):
    """log-density of the uniform distribution on a box = -log(volume), whatever the numeric type of the bounds and however
    large the dimension (bounds written as Python ints are the natural way to write them)"""
    import cuqi
    n, lo, w = c["n"], c["low"], c["width"]
    if rec.classify({"kind": c["kind"], "n>=19": n >= 19}, n > 1):
        return
    if c["kind"] == "int_scalars":
        d = cuqi.distribution.Uniform(int(lo), int(lo + w), geometry=n)
    elif c["kind"] == "float_scalars":
        d = cuqi.distribution.Uniform(float(lo), float(lo + w), geometry=n)
    elif c["kind"] == "int_array":
        d = cuqi.distribution.Uniform(np.full(n, lo, dtype=int), np.full(n, lo + w, dtype=int))
    else:
        d = cuqi.distribution.Uniform(np.full(n, float(lo)), np.full(n, float(lo + w)))
    x = lo + w * A(c["frac"])
    got = _f(must(lambda: d.logpdf(x.copy()), "Uniform.logpdf"))
    want = -n * np.log(float(w))
    require(close(got, want, 1e-10), f"Uniform({c['kind']}, dim {n}).logpdf inside the box is not -log(volume)", got=got, want=want)
    xo = x.copy()
    xo[-1] = lo + w + 0.5
    with np.errstate(all="ignore"):
        require(_f(d.logpdf(xo)) == -np.inf, "Uniform.logpdf outside the box is not -inf")


SUBCHECKS = [
    SubCheck("C04/uniform_volume", run_uniform, strategy=uniform_cases, n={"quick": 300, "thorough": 3000}, shards={"quick": 2, "thorough": 4}),
    SubCheck("C04/conditional_siblings", run_siblings, strategy=sibling_cases, n={"quick": 800, "thorough": 15000}, shards={"quick": 4, "thorough": 16}),
    SubCheck("C04/families", run_family, strategy=lambda tier: dists.family_spec(max_dim=5 if tier == "quick" else 9, magnitudes=True),
             n={"quick": 3000, "thorough": 60000}, shards={"quick": 4, "thorough": 16}),
    SubCheck("C04/cdf", run_cdf, strategy=lambda tier: dists.family_spec(families=["Normal", "Cauchy", "Gamma", "InverseGamma", "Beta"],
                                                                         modes=("vector", "scalar", "list")),
             n={"quick": 1000, "thorough": 20000}, shards={"quick": 2, "thorough": 8}),
    SubCheck("C04/user_defined", run_user, strategy=user_cases, n={"quick": 100, "thorough": 1000}),
    SubCheck("C04/quadrature", run_quad, strategy=quad_cases, n={"quick": 240, "thorough": 4000}, shards={"quick": 4, "thorough": 16}),
    SubCheck("C04/gaussian_forms", run_gauss, strategy=gauss_cases, n={"quick": 2000, "thorough": 40000},
             shards={"quick": 4, "thorough": 16}),
    SubCheck("C04/reassign", run_reassign, strategy=reassign_cases, n={"quick": 800, "thorough": 15000}, shards={"quick": 4, "thorough": 16}),
    SubCheck("C04/gmrf", c20.run_gmrf, strategy=c20.gmrf_cases, n={"quick": 400, "thorough": 8000}, shards={"quick": 2, "thorough": 8}),
    SubCheck("C04/lmrf_cmrf", c20.run_lc, strategy=c20.lc_cases, n={"quick": 400, "thorough": 8000}, shards={"quick": 2, "thorough": 8}),
]
