"""C10 - conjugate and direct samplers draw from the exact conditional."""
import numpy as np
from hypothesis import strategies as st

from vlib.core import SubCheck, Violation, require, close, maxdiff, A, must, refuses
from vlib import gen
from vlib.rand import ScriptedRNG, patched_global
from checks import c20

PROPERTY = "C10"
RULE = ("Hypothesis draws supported conjugate pairs (Gaussian with cov = 1/s or prec = s and mean a vector or A x; GMRF with prec = d over "
        "bc/order/1D-2D), data, dimensions 2-12, Gamma shape/rate, the sampler interface and the route (Posterior built directly or "
        "through JointDistribution conditioning); and unsupported structures (cov = 1/s^2, cov = s, prec = 2s, prec = sqrt(s), prec = s^2, "
        "the parameter in two fields, multivariate Gamma, non-Gamma prior, non-Gaussian likelihood). np.random.gamma is interposed in "
        "record mode to capture the Gamma(shape, scale) the sampler draws from. Non-trivial: non-zero residual and a non-flat Gamma "
        "prior; distinct = distinct generated case.")
ASSUMPTIONS = ["the sampler's draw distribution is exactly the arguments of its single np.random.gamma call",
               "the target's own logd along the hyper-parameter axis (6 points over two decades) is the reference: log-density minus "
               "(shape-1) log s + s/scale must be constant within 1e-8 relative"]


@st.composite
def pair_cases(draw, tier="quick"):
    kind = draw(st.sampled_from(["gaussian_cov", "gaussian_prec", "gmrf"]))
    c = {"kind": kind, "interface": draw(st.sampled_from(["experimental", "legacy"])), "route": draw(st.sampled_from(["joint", "joint", "direct"])),
         "shape": draw(gen.logpos(-1, 1)), "rate": draw(gen.logpos(-2, 1)), "seed": draw(st.integers(0, 10 ** 6)),
         "retarget": draw(st.sampled_from([False, False, True])),
         # data and mean on a common large base line (2^20, 2^23; values rounded to multiples of 2^-20 so that the shift is exact in
         # floating point): the residual, and so the conditional of the hyper-parameter, does not depend on the base line
         "baseline_pow": draw(st.sampled_from([0, 0, 20, 23]))}
    if kind == "gmrf":
        pd = draw(st.sampled_from([1, 1, 2]))
        n = draw(st.integers(3, 12)) if pd == 1 else draw(st.integers(2, 4))
        c.update(pd=pd, n=n, bc=draw(st.sampled_from(["zero", "zero", "periodic", "neumann"])), order=draw(st.sampled_from([0, 1, 2])),
                 mean_kind=draw(st.sampled_from(["zero", "vector", "scalar"])))
        dim = n if pd == 1 else n * n
        c["mean"] = draw(gen.vec(dim, -1, 1))
        c["x"] = draw(gen.vec(dim, -2, 2))
    else:
        m = draw(st.integers(2, 12))
        n = draw(st.integers(1, 5))
        c.update(m=m, n=n, with_model=draw(st.booleans()), A=draw(gen.mat(m, n, -1, 1)), x=draw(gen.vec(n, -2, 2)),
                 mean=draw(gen.vec(m, -1, 1)), data=draw(gen.vec(m, -2, 2)),
                 # the mean may be a scalar broadcast over the geometry
                 mean_kind=draw(st.sampled_from(["vector", "vector", "scalar"])))
        if draw(st.sampled_from([False, False, True])):
            # data with entries that are exactly zero (padding, integer counts): they count like any other entry
            zidx = draw(st.lists(st.integers(0, m - 1), min_size=1, max_size=m, unique=True))
            c["data"] = [0.0 if i in zidx else v for i, v in enumerate(c["data"])]
            c["zeros_in_data"] = True
    return c


def on_baseline(c, v):
    if not c.get("baseline_pow"):
        return v
    return np.round(np.asarray(v, dtype=float) * 2.0 ** 20) / 2.0 ** 20 + 2.0 ** c["baseline_pow"]


def build_pair(c):
    """returns (Posterior target over the hyper-parameter 's', description)"""
    import cuqi
    D = cuqi.distribution
    s = D.Gamma(c["shape"], c["rate"], name="s")
    if c["kind"] == "gmrf":
        n, pd = c["n"], c["pd"]
        mean = A(c["mean"]) if c["mean_kind"] == "vector" else (float(c["mean"][0]) if c["mean_kind"] == "scalar" else np.zeros(n if pd == 1 else n * n))
        if c["mean_kind"] != "zero":
            mean = on_baseline(c, mean)
            mean = float(mean) if c["mean_kind"] == "scalar" else mean
        c20.decoy_other_layout(pd, n, c["bc"], c["order"])
        x = D.GMRF(mean, prec=lambda s: s, bc_type=c["bc"], order=c["order"], geometry=c20.make_geom(pd, n), name="x")
        xv = A(c["x"]) if c["mean_kind"] == "zero" else on_baseline(c, A(c["x"]))
        if c["route"] == "joint":
            return D.JointDistribution(x, s)(x=xv)
        return D.Posterior(x.to_likelihood(xv), s)
    m, n = c["m"], c["n"]
    key = "cov" if c["kind"] == "gaussian_cov" else "prec"
    fn = (lambda s: 1.0 / s) if key == "cov" else (lambda s: s)
    b = A(c["data"])
    if c["with_model"]:
        Am = A(c["A"])
        xd = D.Gaussian(np.zeros(n), 1.0, name="x")
        model = cuqi.model.LinearModel(Am)
        y = D.Gaussian(model(xd), **{key: fn}, geometry=m, name="y")
        if c["route"] == "joint":
            return D.JointDistribution(y, xd, s)(y=b, x=A(c["x"]))
        return D.Posterior(y(x=A(c["x"])).to_likelihood(b), s)
    b = on_baseline(c, b)
    y = D.Gaussian(on_baseline(c, A(c["mean"])) if c.get("mean_kind", "vector") == "vector" else float(on_baseline(c, c["mean"][0])), **{key: fn}, geometry=m, name="y")
    if c["route"] == "joint":
        return D.JointDistribution(y, s)(y=b)
    return D.Posterior(y.to_likelihood(b), s)


def capture_gamma(make_and_step, seed):
    """run the step with np.random.gamma recorded; returns (shape, scale, value returned)"""
    rng = ScriptedRNG(fallback_seed=seed, record_only=True)
    with patched_global(rng):
        val = make_and_step()
    calls = [c for c in rng.calls if c[0] == "gamma"]
    require(len(calls) == 1, "the conjugate sampler did not draw exactly one Gamma variate per step", calls=len(calls))
    sh = float(np.asarray(calls[0][1]["shape"]).reshape(-1)[0])
    sc = float(np.asarray(calls[0][1]["scale"]).reshape(-1)[0])
    return sh, sc, val


def proportional_to_own_density(target, sh, sc, what):
    grid = sc * sh * np.array([0.1, 0.3, 1.0, 2.0, 5.0, 10.0]) if sh * sc > 0 else np.array([0.1, 0.3, 1, 2, 5, 10.0])
    own = np.array([float(np.asarray(target.logd(np.array([g]))).reshape(-1)[0]) for g in grid])
    gam = (sh - 1) * np.log(grid) - grid / sc
    diff = own - gam
    if not np.all(np.isfinite(own)):
        return "own_density_not_finite"
    spread = float(np.max(diff) - np.min(diff))
    require(spread <= 1e-8 * (1 + np.max(np.abs(own))),
            f"{what}: the Gamma distribution the sampler draws from is not proportional to the posterior's own density in the hyper-parameter",
            gamma_shape=sh, gamma_rate=1 / sc, own_minus_gamma=diff, grid=grid)
    return "checked"


def run_pair(c, rec):
    import cuqi
    tags = {"kind": c["kind"], "interface": c["interface"], "route": c["route"], "mean": c.get("mean_kind", "vector"),
            "zeros_in_data": bool(c.get("zeros_in_data"))}
    if c["kind"] == "gmrf":
        tags.update(bc=c["bc"], order=c["order"], pd=c["pd"])
    if rec.classify(tags, True):
        return
    if c["kind"] == "gmrf":
        # a conjugate step on a field with the same number of nodes, boundary condition and order on the OTHER grid layout is made
        # first (anything the sampler remembers between posteriors under too coarse a key would now be used for the target)
        n, pd = c["n"], c["pd"]
        r = int(round(np.sqrt(n)))
        other = dict(c, pd=1, n=n * n) if pd == 2 else (dict(c, pd=2, n=r) if r * r == n and r >= 2 else None)
        if other is not None:
            dim_o = other["n"] if other["pd"] == 1 else other["n"] ** 2
            other.update(mean=list(np.linspace(-1, 1, dim_o)), x=list(np.cos(np.arange(dim_o) + 1.0)), baseline_pow=0)

            def decoy_step():
                t = build_pair(other)
                if c["interface"] == "experimental":
                    sd_ = cuqi.experimental.mcmc.Conjugate(t)
                    sd_.initialize()
                    sd_.step()
                else:
                    cuqi.sampler.Conjugate(t).step()
            with patched_global(ScriptedRNG(fallback_seed=c["seed"] + 7, record_only=True)):
                if not refuses(decoy_step)[0]:
                    rec.count("decoy_step_on_other_grid_layout")
    target = must(lambda: build_pair(c), "building the conjugate posterior")
    require(type(target).__name__ == "Posterior", "harness: expected a Posterior", got=type(target).__name__)
    if c["interface"] == "experimental" and c.get("retarget"):
        # the sampler object is first used on another posterior of the same structure (other data, other latent value, other
        # Gamma prior) and then handed the target - the way HybridGibbs re-uses one sampler object per block
        c1 = dict(c, shape=c["shape"] * 2.0, rate=c["rate"] * 3.0, x=[0.5 * v + 0.3 for v in c["x"]])
        if "data" in c:
            c1["data"] = [v + 1.0 for v in c["data"][::-1]]
        other = must(lambda: build_pair(c1), "building the conjugate posterior")
        s0 = cuqi.experimental.mcmc.Conjugate(other)
        s0.initialize()
        with patched_global(ScriptedRNG(fallback_seed=c["seed"] + 1, record_only=True)):
            s0.step()
        rec.count("retargeted")

        def run():
            s0.target = target
            s0.step()
            return s0.current_point
    elif c["interface"] == "experimental":
        def run():
            s = cuqi.experimental.mcmc.Conjugate(target)
            s.initialize()
            s.step()
            return s.current_point
    else:
        def run():
            return cuqi.sampler.Conjugate(target).step()
    refused, out = refuses(lambda: capture_gamma(run, c["seed"]))
    if refused:
        if isinstance(out, Violation):
            raise out
        raise Violation(f"Conjugate sampler ({c['interface']}) refused a supported conjugate pair: {out}")
    sh, sc, val = out
    res = proportional_to_own_density(target, sh, sc, f"Conjugate[{c['interface']}] {c['kind']}")
    if res != "checked":
        rec.inconc(res)
        return
    want = np.random.RandomState(c["seed"]).gamma(sh, sc, size=(1, 1))
    require(close(np.asarray(val, dtype=float).reshape(-1), want.reshape(-1), 1e-12), "the step does not return the Gamma draw it made")


# ----------------------------------------------------------------------------- rejection

BAD = ["cov_inv_sq", "cov_identity", "prec_double", "prec_sqrt", "prec_sq", "two_fields", "gamma_dim2", "gamma_scalar_geom2", "prior_invgamma",
       "prior_uniform", "lik_laplace", "lik_normal", "prec_clipped"]


@st.composite
def reject_cases(draw, tier="quick"):
    return {"bad": draw(st.sampled_from(BAD)), "m": draw(st.integers(2, 6)), "data": draw(gen.vec(6, -2, 2)), "mean": draw(gen.vec(6, -1, 1)),
            "interface": draw(st.sampled_from(["experimental", "legacy"])), "shape": draw(gen.logpos(-0.5, 0.5)), "rate": draw(gen.logpos(-1, 0.5)),
            "seed": draw(st.integers(0, 1000))}


def build_bad(c):
    import cuqi
    D = cuqi.distribution
    m = c["m"]
    b, mu = A(c["data"])[:m], A(c["mean"])[:m]
    bad = c["bad"]
    s = D.Gamma(c["shape"], c["rate"], name="s")
    if bad == "gamma_dim2":
        s = D.Gamma(np.array([c["shape"], c["shape"]]), np.array([c["rate"], c["rate"]]), name="s")
    elif bad == "gamma_scalar_geom2":
        s = D.Gamma(c["shape"], c["rate"], geometry=2, name="s")     # scalar shape/rate broadcast over a 2-dimensional geometry
    elif bad == "prior_invgamma":
        s = D.InverseGamma(c["shape"], 0.0, c["rate"], name="s")
    elif bad == "prior_uniform":
        s = D.Uniform(0.01, 10.0, name="s")
    if bad == "cov_inv_sq":
        y = D.Gaussian(mu, cov=lambda s: 1.0 / s ** 2, geometry=m, name="y")
    elif bad == "cov_identity":
        y = D.Gaussian(mu, cov=lambda s: s, geometry=m, name="y")
    elif bad == "prec_double":
        y = D.Gaussian(mu, prec=lambda s: 2.0 * s, geometry=m, name="y")
    elif bad == "prec_sqrt":
        y = D.Gaussian(mu, prec=lambda s: np.sqrt(s), geometry=m, name="y")
    elif bad == "prec_sq":
        y = D.Gaussian(mu, prec=lambda s: s ** 2, geometry=m, name="y")
    elif bad == "two_fields":
        y = D.Gaussian(lambda s: mu * s, cov=lambda s: 1.0 / s, geometry=m, name="y")
    elif bad == "gamma_dim2":
        y = D.Gaussian(mu, cov=lambda s: 1.0 / s[0], geometry=m, name="y")
    elif bad == "gamma_scalar_geom2":
        y = D.Gaussian(mu, cov=lambda s: 1.0 / s, geometry=m, name="y")      # written as for a scalar hyper-parameter
    elif bad == "prec_clipped":
        # not the identity, although it agrees with it at many points
        y = D.Gaussian(mu, prec=lambda s: np.maximum(s, 1.0), geometry=m, name="y")
    elif bad == "lik_laplace":
        y = D.Laplace(mu, lambda s: 1.0 / s, geometry=m, name="y")
    elif bad == "lik_normal":
        y = D.Normal(mu, lambda s: 1.0 / np.sqrt(s), geometry=m, name="y")
    else:
        y = D.Gaussian(mu, cov=lambda s: 1.0 / s, geometry=m, name="y")
    return D.Posterior(y.to_likelihood(b), s)


def run_reject(c, rec):
    import cuqi
    tags = {"bad": c["bad"], "interface": c["interface"]}
    if rec.classify(tags, True):
        return
    refused, target = refuses(lambda: build_bad(c))
    if refused:
        rec.count("posterior_construction_refused")
        return
    if c["interface"] == "experimental" and c.get("retarget"):
        # the sampler object is first used on another posterior of the same structure (other data, other latent value, other
        # Gamma prior) and then handed the target - the way HybridGibbs re-uses one sampler object per block
        c1 = dict(c, shape=c["shape"] * 2.0, rate=c["rate"] * 3.0, x=[0.5 * v + 0.3 for v in c["x"]])
        if "data" in c:
            c1["data"] = [v + 1.0 for v in c["data"][::-1]]
        other = must(lambda: build_pair(c1), "building the conjugate posterior")
        s0 = cuqi.experimental.mcmc.Conjugate(other)
        s0.initialize()
        with patched_global(ScriptedRNG(fallback_seed=c["seed"] + 1, record_only=True)):
            s0.step()
        rec.count("retargeted")

        def run():
            s0.target = target
            s0.step()
            return s0.current_point
    elif c["interface"] == "experimental":
        def run():
            s = cuqi.experimental.mcmc.Conjugate(target)
            s.initialize()
            s.step()
            return s.current_point
    else:
        def run():
            return cuqi.sampler.Conjugate(target).step()
    refused, out = refuses(lambda: capture_gamma(run, c["seed"]))
    if refused:
        rec.count("rejected")
        return
    sh, sc, val = out
    if c["bad"] in ("gamma_dim2", "gamma_scalar_geom2"):
        raise Violation(f"Conjugate sampler ({c['interface']}) accepted a non-scalar Gamma hyper-parameter ({c['bad']}) and drew a single scalar for it")
    # accepted: it is only a violation if what it draws from is not the true conditional
    refused2, res = refuses(lambda: proportional_to_own_density(target, sh, sc, f"Conjugate[{c['interface']}] accepted unsupported structure '{c['bad']}'"))
    if refused2:
        if isinstance(res, Violation):
            raise Violation(f"Conjugate sampler ({c['interface']}) accepted a posterior outside the conjugate structure ({c['bad']}) and sampled it approximately: "
                            + res.msg, **res.details)
        rec.count("accepted_but_own_density_unavailable")
        return
    rec.count("accepted_and_exact")


# ----------------------------------------------------------------------------- approximate conjugate sampler: rejection rules only

@st.composite
def approx_cases(draw, tier="quick"):
    return {"bad": draw(st.sampled_from(["scale_inv_sq", "scale_identity", "not_lmrf", "location_nonzero", "location_zero_sum", "gamma_dim2", "ok"])),
            "n": draw(st.integers(3, 8)), "x": draw(gen.vec(8, -2, 2))}


def run_approx(c, rec):
    import cuqi
    D = cuqi.distribution
    if rec.classify({"bad": c["bad"]}, True):
        return
    n = c["n"]
    xv = A(c["x"])[:n]
    s = D.Gamma(1.0, 1e-2, name="s")
    loc = 0.0
    scale = lambda s: 1.0 / s
    if c["bad"] == "scale_inv_sq":
        scale = lambda s: 1.0 / s ** 2
    elif c["bad"] == "scale_identity":
        scale = lambda s: s
    elif c["bad"] == "location_nonzero":
        loc = np.ones(n)
    elif c["bad"] == "location_zero_sum":
        loc = np.zeros(n)
        loc[0], loc[1] = 1.0, -1.0
    elif c["bad"] == "gamma_dim2":
        s = D.Gamma(np.array([1.0, 1.0]), np.array([1.0, 1.0]), name="s")
        scale = lambda s: 1.0 / s[0]
    if c["bad"] == "not_lmrf":
        x = D.CMRF(loc, scale, geometry=n, name="x")
    else:
        x = D.LMRF(loc, scale, geometry=n, name="x")
    refused, target = refuses(lambda: D.Posterior(x.to_likelihood(xv), s))
    if refused:
        rec.count("posterior_construction_refused")
        return
    refused, smp = refuses(lambda: cuqi.experimental.mcmc.ConjugateApprox(target))
    if c["bad"] == "ok":
        require(not refused, "ConjugateApprox refused the documented LMRF / Gamma structure", err=str(smp))
        return
    require(refused, f"ConjugateApprox accepted a posterior outside its documented structure ({c['bad']})")


# ----------------------------------------------------------------------------- direct sampler

@st.composite
def direct_cases(draw, tier="quick"):
    n = draw(st.integers(1, 5))
    return {"fam": draw(st.sampled_from(["Gaussian", "Gamma", "Normal", "GMRF", "Uniform", "Lognormal"])), "n": n, "seed": draw(st.integers(0, 10 ** 6)),
            "mean": draw(gen.vec(max(n, 2), -1, 1)), "var": draw(gen.logpos(-1, 1)), "steps": draw(st.integers(1, 3))}


def run_direct(c, rec):
    import cuqi
    D = cuqi.distribution
    if rec.classify({"fam": c["fam"]}, True):
        return
    n = c["n"]
    mean = A(c["mean"])[:max(n, 1)]
    if c["fam"] == "Gaussian":
        t = D.Gaussian(mean[:n], c["var"])
    elif c["fam"] == "Gamma":
        t = D.Gamma(1.0 + c["var"], c["var"], geometry=n)
    elif c["fam"] == "Normal":
        t = D.Normal(mean[:n], np.sqrt(c["var"]))
    elif c["fam"] == "GMRF":
        t = D.GMRF(A(c["mean"])[:max(n, 2)], c["var"], geometry=max(n, 2))
    elif c["fam"] == "Uniform":
        t = D.Uniform(mean[:n], mean[:n] + c["var"])
    else:
        t = D.Lognormal(mean[:n], c["var"] * np.eye(n))
    if c["seed"] % 3 == 0:
        # the sampler object was first used on another target and is then handed this one (public target attribute)
        other = D.Gaussian(np.zeros(max(n, 1)) + 5.0, 0.01)
        s = must(lambda: cuqi.experimental.mcmc.Direct(other), "constructing Direct")
        s.initialize()
        s.step()
        s.target = t
        rec.count("retargeted")
    else:
        s = must(lambda: cuqi.experimental.mcmc.Direct(t), "constructing Direct")
        s.initialize()
    np.random.seed(c["seed"])
    got = []
    for _ in range(c["steps"]):
        s.step()
        got.append(np.asarray(s.current_point, dtype=float).reshape(-1).copy())
    np.random.seed(c["seed"])
    want = [np.asarray(t.sample(), dtype=float).reshape(-1) for _ in range(c["steps"])]
    np.random.seed()
    for g, w in zip(got, want):
        require(g.shape == w.shape and maxdiff(g, w) == 0, "Direct.step() is not a draw of the target's own sampling method under the same random stream", got=g, want=w)
    # a target without a sampling method is refused
    post = D.Posterior(D.Gaussian(lambda x: x, 1.0, geometry=1, name="y").to_likelihood(np.array([0.3])), D.Gaussian(np.zeros(1), 1.0, name="x"))
    refused, _ = refuses(lambda: cuqi.experimental.mcmc.Direct(post))
    require(refused, "Direct accepted a target that cannot be sampled directly")


SUBCHECKS = [
    SubCheck("C10/conjugate_pairs", run_pair, strategy=pair_cases, n={"quick": 800, "thorough": 20000}, shards={"quick": 8, "thorough": 16}),
    SubCheck("C10/conjugate_rejection", run_reject, strategy=reject_cases, n={"quick": 400, "thorough": 5000}, shards={"quick": 4, "thorough": 8}),
    SubCheck("C10/conjugate_approx_rejection", run_approx, strategy=approx_cases, n={"quick": 150, "thorough": 1500}, shards={"quick": 2, "thorough": 4}),
    SubCheck("C10/direct", run_direct, strategy=direct_cases, n={"quick": 200, "thorough": 3000}, shards={"quick": 2, "thorough": 8}),
]
