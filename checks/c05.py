"""C05 - direct samples follow the distribution's own density and the given random stream."""
import numpy as np
import scipy.stats as sps
from hypothesis import strategies as st

from vlib.core import SubCheck, Violation, require, close, maxdiff, A, must, refuses
from vlib import gen, dists, stats
from vlib.rand import ScriptedRNG
from checks import c04, c20

PROPERTY = "C05"
RULE = ("Hypothesis draws Gaussian specifications (cov/prec/sqrtcov/sqrtprec x scalar/vector/diagonal/dense/sparse, "
        "upper/lower/symmetric/general square roots, both sides of the dense/sparse switch), GMRFs (bc x order x 1D/2D), "
        "Lognormals and the univariate families with generated parameters, sample counts N and RandomState seeds. Affine "
        "samplers are decided exactly by a scripted generator (offset = mean, B B^T = covariance implied by the object's own "
        "log-density); the other families by probability-integral transform + KS test (two-stage rule). Non-trivial: "
        "non-diagonal square root or non-default bc or N>1; distinct = distinct generated case.")
ASSUMPTIONS = ["the log-density of the affine families is quadratic, so central second differences give its Hessian exactly up to round-off",
               "KS tests at family-wise level 1e-5 with a confirming second stage (8x draws, level 1e-6)"]


def quad_moments(logd0, n, h=1.0, centre=None):
    """mean-equation and Hessian of a quadratic log-density by exact central differences around `centre` with step h (the
    step must be of the order of the distribution's scale and the centre near its mean, otherwise the second differences
    are lost in round-off): returns (g0, H) with grad logd(0) = g0 (extrapolated, exact for quadratics) and -hessian = H."""
    ctr = np.zeros(n) if centre is None else np.asarray(centre, dtype=float).reshape(n)
    logd = lambda z: logd0(ctr + z)
    f0 = logd(np.zeros(n))
    g = np.zeros(n)
    H = np.zeros((n, n))
    E = np.eye(n) * h
    fp = [logd(E[i]) for i in range(n)]
    fm = [logd(-E[i]) for i in range(n)]
    for i in range(n):
        g[i] = (fp[i] - fm[i]) / (2 * h)
        H[i, i] = -(fp[i] - 2 * f0 + fm[i]) / h ** 2
    for i in range(n):
        for j in range(i + 1, n):
            v = (logd(E[i] + E[j]) - logd(E[i] - E[j]) - logd(-E[i] + E[j]) + logd(-E[i] - E[j])) / (4 * h * h)
            H[i, j] = H[j, i] = -v
    return g + H @ ctr, H


def affine_map(dist, n, N=1):
    """Read offset a and linear map B of sample = a + B e from a scripted generator."""
    probe = ScriptedRNG(fallback_seed=0, record_only=True)
    dist.sample(N, rng=probe)
    k_total = 0
    for name, arg in probe.calls:
        shp = arg if name != "randn" else arg
        shp = tuple(shp[0]) if (len(shp) == 1 and hasattr(shp[0], "__len__")) else tuple(shp)
        k_total += int(np.prod(shp))
    k = k_total // N

    def draw(e):  # e: (k_total,) flat script
        r = ScriptedRNG(normal=list(e))
        s = dist.sample(N, rng=r)
        require(len(r.q["normal"]) == 0, "sampler consumed fewer normal draws than it did when probed")
        return s
    return k, k_total, draw


def quad_moments_from_gradient(grad0, n, h=1.0, centre=None):
    """same as quad_moments but from the object's own gradient (used when the normalised log-density is refused); evaluated
    around `centre` (near the mean), returned in the same (g0 at the origin, H) form"""
    ctr = np.zeros(n) if centre is None else np.asarray(centre, dtype=float).reshape(n)
    grad = lambda z: grad0(ctr + z)
    g0 = np.asarray(grad(np.zeros(n)), dtype=float).reshape(-1)
    H = np.zeros((n, n))
    for i in range(n):
        e = np.zeros(n)
        e[i] = h
        H[:, i] = (g0 - np.asarray(grad(e), dtype=float).reshape(-1)) / h
    H = (H + H.T) / 2
    return g0 + H @ ctr, H


def check_affine_law(dist, n, logd, rec, what, tol, intrinsic=False, log_transform=False, moments=None, reg=0.0, h=1.0):
    k, k_total, draw = affine_map(dist, n, 1)
    tr = (lambda v: np.log(np.asarray(v, dtype=float))) if log_transform else (lambda v: np.asarray(v, dtype=float))
    s0 = must(lambda: draw(np.zeros(k_total)), f"{what}: sample(1)")
    require(np.asarray(s0).shape == (n,) or (n == 1 and np.size(s0) == 1), f"{what}: one draw is not an array of size dim",
            shape=np.asarray(s0).shape, dim=n)
    a = tr(s0).reshape(n)
    B = np.zeros((n, k_total))
    for i in range(k_total):
        e = np.zeros(k_total)
        e[i] = 1.0
        B[:, i] = tr(draw(e)).reshape(n) - a
    e = np.cos(1.0 + np.arange(k_total))
    require(close(tr(draw(e)).reshape(n), a + B @ e, 1e-8), f"{what}: sample is not an affine function of the normal draws")
    if callable(moments):
        g0, H = moments(a)
    else:
        g0, H = moments if moments is not None else quad_moments(logd, n, h=h, centre=a)
    C = B @ B.T
    scale = max(1.0, np.abs(H).max())
    if not intrinsic:
        # Newton step from the draws' offset to the mode of the log-density, in units of the distribution's scale h
        delta = np.linalg.solve(H, g0 - H @ a)
        require(float(np.max(np.abs(delta))) <= max(tol * max(1.0, np.linalg.cond(H)), 1e-7) * max(h, 1e-3 * float(np.max(np.abs(a)))) + 1e-8 * float(np.max(np.abs(a))),
                f"{what}: offset of the draws is not the mean implied by the log-density", a=a, mean=a + delta)
        require(close(C @ H, np.eye(n), tol * max(1.0, np.linalg.cond(H))),
                f"{what}: covariance of the draws is not the inverse Hessian of the log-density (max err {maxdiff(C, np.linalg.inv(H)):.3g})",
                cov_draws=C, cov_density=np.linalg.inv(H))
    else:
        w, V = np.linalg.eigh((H + H.T) / 2)
        keep = w > 1e-8 * w.max()
        R = V[:, keep]
        Hp = R @ np.diag(1 / w[keep]) @ R.T
        Cp = R @ R.T @ C @ R @ R.T
        require(close(R.T @ (H @ a - g0), 0 * w[keep], tol * scale), f"{what}: offset of the draws is not the mean on the range of the precision")
        # `reg`: size (in units of the precision) of the documented regularisation eps*I the sampler adds before factorising; it
        # changes the covariance on the range by at most reg / lambda_min^2
        atol = max(tol * max(1.0, np.abs(Hp).max()), 4 * reg / float(np.min(w[keep])) ** 2)
        require(maxdiff(Cp, Hp) <= atol,
                f"{what}: covariance of the draws is not the pseudo-inverse of the precision on its range", cov_draws=Cp, pinv=Hp, atol=atol)
    return k_total


def check_shapes_and_stream(d, n, rec, what, Ns=(1, 3), scipy_rvs=False):
    """shape/wrapping, determinism in the given generator state, global state untouched."""
    import cuqi
    for N in Ns:
        st0 = np.random.get_state()
        s1 = must(lambda: d.sample(N, rng=np.random.RandomState(5)), f"{what}: sample({N}, rng)")
        s2 = d.sample(N, rng=np.random.RandomState(5))
        s3 = d.sample(N, rng=np.random.RandomState(6))
        st1 = np.random.get_state()
        require(st0[0] == st1[0] and np.array_equal(st0[1], st1[1]) and st0[2:] == st1[2:],
                f"{what}: sampling with an explicit generator changed the global random state")
        if N == 1:
            if n == 1:
                require(np.size(s1) == 1, f"{what}: one draw of a 1-dim distribution is not a scalar", got=np.shape(s1))
            else:
                require(isinstance(s1, cuqi.array.CUQIarray) and s1.shape == (n,), f"{what}: one draw is not a CUQIarray of size dim",
                        type=type(s1).__name__, shape=np.shape(s1))
                require(s1.geometry == d.geometry, f"{what}: the draw does not carry the distribution's geometry")
            v1, v2, v3 = np.asarray(s1, dtype=float), np.asarray(s2, dtype=float), np.asarray(s3, dtype=float)
        else:
            require(isinstance(s1, cuqi.samples.Samples) and s1.Ns == N and
                    (s1.samples.shape == (n, N) or (n == 1 and s1.samples.shape == (N,))),
                    f"{what}: {N} draws are not a Samples object with one column per draw", shape=getattr(getattr(s1, 'samples', None), 'shape', None))
            require(s1.geometry == d.geometry, f"{what}: samples do not carry the distribution's geometry")
            v1, v2, v3 = s1.samples, s2.samples, s3.samples
        require(np.array_equal(v1, v2), f"{what}: draws are not a deterministic function of the generator state")
        require(not np.array_equal(v1, v3), f"{what}: different generator states gave identical draws")
    # the newer numpy Generator, where the family takes it at all (several call rng.randn and refuse it): same guarantees
    refused, g1 = refuses(lambda: d.sample(2, rng=np.random.default_rng(5)))
    if not refused:
        st0 = np.random.get_state()
        g1 = np.asarray(d.sample(2, rng=np.random.default_rng(5)).samples)
        g2 = np.asarray(d.sample(2, rng=np.random.default_rng(5)).samples)
        g3 = np.asarray(d.sample(2, rng=np.random.default_rng(6)).samples)
        st1 = np.random.get_state()
        require(st0[0] == st1[0] and np.array_equal(st0[1], st1[1]) and st0[2:] == st1[2:],
                f"{what}: sampling with an explicit numpy Generator changed the global random state")
        require(np.array_equal(g1, g2), f"{what}: draws are not a deterministic function of the numpy Generator's state")
        require(not np.array_equal(g1, g3), f"{what}: differently seeded numpy Generators gave identical draws (generator ignored?)")
        rec.count("generator_supported:" + what)
    # global stream: seeded global state reproduces, and differs from the explicit generator only through the stream
    np.random.seed(11)
    g1 = np.asarray(d.sample(2).samples)
    np.random.seed(11)
    g2 = np.asarray(d.sample(2).samples)
    np.random.seed()
    require(np.array_equal(g1, g2), f"{what}: draws from the global stream are not reproducible from its seed")


# ----------------------------------------------------------------------------- Gaussian

def run_gauss(c, rec):
    import cuqi
    tags = c04.gauss_tags(c)
    if c["param"] in ("sqrtprec", "sqrtcov") and c["structure"] in ("dense", "sparse"):
        nontrivial = True
    else:
        nontrivial = c["structure"] in ("dense", "sparse")
    if rec.classify(tags, nontrivial):
        return
    n = c["n"]
    mean = {"zero": 0.0, "scalar": float(c["mean"][0]), "vector": A(c["mean"])}[c["mean_kind"]]
    old = cuqi.config.MIN_DIM_SPARSE
    try:
        if c["sparse_switch"] == "above":
            cuqi.config.MIN_DIM_SPARSE = 1
        arg = c04.gauss_arg(c)
        arg0 = arg.toarray().copy() if hasattr(arg, "toarray") else np.array(arg, dtype=float, copy=True)
        kw = {c["param"]: arg}
        if c["mean_kind"] != "vector":
            kw["geometry"] = n
        refused, d = refuses(lambda: cuqi.distribution.Gaussian(mean, **kw))
        if refused:
            raise Violation(f"constructing Gaussian({c['param']}=<{c['structure']}>) failed: {type(d).__name__}: {d}")
            return
        # a first draw; afterwards the array the caller passed must still hold the caller's numbers
        refuses(lambda: d.sample(1, rng=np.random.RandomState(3)))
        argn = arg.toarray() if hasattr(arg, "toarray") else np.asarray(arg, dtype=float)
        require(maxdiff(argn, arg0) == 0, f"drawing from Gaussian({c['param']}=...) altered the array that was passed in",
                structure=c["structure"], layout=c.get("layout"), sqrt_kind=c.get("sqrt_kind"))
        tol = 1e-8 if c["sparse_switch"] == "below" else 1e-6
        # the un-normalised log-density may be unavailable (sparse without cholmod): use differences of _logupdf-free logd
        refused, _ = refuses(lambda: d.logd(np.zeros(n)))
        moments = None
        if refused:
            # sparse full matrices without cholmod: the normalised log-density is refused; its derivative still states the density
            refused_g, _ = refuses(lambda: d.gradient(np.zeros(n)))
            if refused_g:
                rec.count("logd_and_gradient_refused")
                return
            rec.count("density_from_gradient")
            moments = lambda ctr: quad_moments_from_gradient(d.gradient, n, h=10.0 ** c.get("scale_pow", 0), centre=ctr)
        check_affine_law(d, n, lambda x: float(np.asarray(d.logd(x)).reshape(-1)[0]), rec, "Gaussian", tol, moments=moments,
                         h=10.0 ** c.get("scale_pow", 0))
        # the draws also have the covariance that was specified (the density's agreement with the specification is C04's
        # subject; this guards against density and sampler being wrong together). The sqrtcov convention finding (C04) is skipped.
        if not (c["param"] == "sqrtcov" and c["structure"] in ("dense", "sparse") and c["sqrt_kind"] != "symmetric"):
            k0, kt0, draw0 = affine_map(d, n, 1)
            a0 = np.asarray(draw0(np.zeros(kt0)), dtype=float).reshape(n)
            B0 = np.array([np.asarray(draw0(np.eye(kt0)[i]), dtype=float).reshape(n) - a0 for i in range(kt0)]).T
            Sspec = c04.gauss_sigma(c)
            require(maxdiff(B0 @ B0.T, Sspec) <= 1e-6 * float(np.max(np.abs(Sspec))), "Gaussian: covariance of the draws is not the specified covariance",
                    got=B0 @ B0.T, want=Sspec)
        check_shapes_and_stream(d, n, rec, "Gaussian")
        # several draws: column j depends on column j of the normal array only
        k, k_total, draw = affine_map(d, n, 3)
        E = np.cos(np.arange(k_total) * 0.37).reshape(k, 3)
        S = draw(E.reshape(-1)).samples
        k1, kt1, draw1 = affine_map(d, n, 1)
        for j in range(3):
            require(close(S[:, j], np.asarray(draw1(E[:, j]), dtype=float), 1e-10), "Gaussian: column j of N draws is not the draw made from column j of the normal array")
    finally:
        cuqi.config.MIN_DIM_SPARSE = old


# ----------------------------------------------------------------------------- GMRF

def run_gmrf(c, rec):
    import cuqi
    n, bc, order, pd = c["n"], c["bc"], c["order"], c["pd"]
    tags = {"pd": pd, "bc": bc, "order": order, "mean": "vector" if isinstance(c["mean"], list) else "scalar"}
    if rec.classify(tags, bc != "zero" or order > 0):
        return
    dim = n if pd == 1 else n * n
    mean = A(c["mean"]) if isinstance(c["mean"], list) else c["mean"]
    if c20.decoy_other_layout(pd, n, bc, order):
        rec.count("decoy_other_layout_built_first")
    G = must(lambda: cuqi.distribution.GMRF(mean, c["prec"], bc_type=bc, order=order, geometry=c20.make_geom(pd, n)), "constructing GMRF")
    if bc == "periodic" and pd == 2:
        refused, _ = refuses(lambda: G.sample(1, rng=np.random.RandomState(0)))
        require(refused, "periodic 2-D GMRF sampling is documented as not implemented but returned draws")
        return
    # quadratic form only (the normalising constant may be non-finite for rank-deficient cases, it does not matter here)
    mu = np.broadcast_to(np.asarray(mean, dtype=float), (dim,))

    base = float(G.logpdf(mu.copy()))
    require(np.isfinite(base), "the GMRF's own log-density is not finite at its mean: the density the object reports is undefined")

    def quad(x):
        return float(G.logpdf(x) - base)
    intrinsic = bc in ("periodic", "neumann") and order > 0
    check_affine_law(G, dim, quad, rec, f"GMRF(bc={bc}, order={order}, pd={pd})", 1e-6, intrinsic=intrinsic,
                     reg=float(c["prec"]) * np.sqrt(np.finfo(float).eps))
    check_shapes_and_stream(G, dim, rec, "GMRF")


# ----------------------------------------------------------------------------- Lognormal

def run_lognormal(c, rec):
    n = c["dim"]
    if rec.classify({"fam": "Lognormal", "cov": c["covkind"]}, c["covkind"] == "matrix"):
        return
    d, ref = dists.build(c)
    S = dists.lognormal_cov(c)
    Sinv = np.linalg.inv(S)
    m = A(c["mean"])
    logd = lambda y: float(-0.5 * (y - m) @ Sinv @ (y - m))
    check_affine_law(d, n, logd, rec, "Lognormal (log of the draws)", 1e-8, log_transform=True)
    check_shapes_and_stream(d, n, rec, "Lognormal")


# ----------------------------------------------------------------------------- other families: PIT + KS

def own_cdf_grid(d, lo, hi, m=20001):
    """cdf of a positive univariate distribution from its own logpdf, integrated on a logarithmic grid
    (the density may be singular at 0)."""
    t = np.linspace(np.log(lo), np.log(hi), m)
    x = np.exp(t)
    with np.errstate(all="ignore"):
        lp = np.array([float(np.asarray(d.logpdf(np.array([v]))).reshape(-1)[0]) for v in x])
    lp = lp + t  # density w.r.t. t = log x
    lp[~np.isfinite(lp)] = -np.inf
    p = np.exp(lp - np.max(lp))
    cdf = np.concatenate([[0], np.cumsum((p[1:] + p[:-1]) / 2 * np.diff(t))])
    return x, cdf / cdf[-1]


def run_pit(c, rec):
    fam, n = c["fam"], c["dim"]
    tags = {"fam": fam, "mode": c["mode"], "multi": n > 1}
    if rec.classify(tags, n > 1 or c["mode"] != "vector"):
        return
    refused, built = refuses(lambda: dists.build(c))
    if refused:
        raise Violation(f"constructing {fam} from documented parameters failed: {type(built).__name__}: {built}")
        return
    d, ref = built
    check_shapes_and_stream(d, n, rec, fam)

    def stat(N, seed):
        X = np.asarray(d.sample(N, rng=np.random.RandomState(seed)).samples, dtype=float).reshape(n, N)
        out = {}
        for i in range(n):
            if fam == "ModifiedHalfNormal":
                t, F = own_cdf_grid(d, 1e-30, max(10.0, 3 * X.max()))
                u = np.interp(X[i], t, F)
            else:
                u = ref.marginal_cdf(i, X[i])
            out[f"ks[{i}]"] = stats.ks_uniform(u)
        if n > 1:  # independence of components: correlation of normal scores of the first two
            z = sps.norm.ppf(np.clip(np.vstack([ref.marginal_cdf(i, X[i]) for i in range(2)]), 1e-12, 1 - 1e-12))
            r = np.corrcoef(z)[0, 1]
            out["indep"] = float(2 * sps.norm.sf(abs(r) * np.sqrt(N)))
        return out
    N1 = c.get("N1", 4000)
    bad, report = stats.two_stage(stat, N1, seed=c["seed"])
    rec.note("replicates_stage1", N1)
    require(not bad, f"{fam}: draws do not follow the distribution's own density (PIT/KS rejected twice)", pvalues=bad, report=report)


@st.composite
def pit_cases(draw, tier="quick"):
    fams = ["Normal", "Laplace", "Cauchy", "Gamma", "InverseGamma", "Beta", "Uniform", "ModifiedHalfNormal"]
    s = draw(dists.family_spec(families=fams, max_dim=3, modes=("vector", "scalar", "list")))
    s["seed"] = draw(st.integers(0, 2 ** 20))
    s["N1"] = 20000 if tier == "quick" else 100000
    if s["fam"] == "Beta":
        # Beta(a, b) with b << 1 puts mass (2^-53)^b (1.2% for b = 0.12) closer to 1 than doubles resolve: the draws collapse onto
        # exactly 1.0 and the probability-integral transform has an atom that is an artefact of floating point, not of the sampler
        s["beta"] = [max(0.45, float(v)) for v in s["beta"]]
    return s


@st.composite
def lognormal_cases(draw, tier="quick"):
    return draw(dists.family_spec(families=["Lognormal"], max_dim=4, modes=("vector",)))


# ----------------------------------------------------------------------------- refusal / user defined

def run_refusal(c, rec):
    import cuqi
    n = c["dim"]
    if rec.classify({"fam": c["fam"]}, True):
        return
    D = cuqi.distribution
    if c["fam"] == "Gaussian":
        d = D.Gaussian(mean=lambda m: m * np.ones(n), cov=1.0, geometry=n)
    elif c["fam"] == "Gaussian_cov":
        d = D.Gaussian(np.zeros(n), cov=lambda s: s)
    elif c["fam"] == "GMRF":
        d = D.GMRF(np.zeros(max(n, 2)), lambda dd: dd, geometry=max(n, 2))
    elif c["fam"] == "Normal":
        d = D.Normal(mean=None, std=1.0, geometry=n)
    else:
        d = D.Gamma(shape=lambda a: a, rate=1.0, geometry=n)
    require(d.is_cond, "harness: distribution should be conditional")
    refused, val = refuses(lambda: d.sample(c["N"]))
    require(refused, "a conditional distribution returned samples before its conditioning variables were given")
    refused, val = refuses(lambda: d.sample(c["N"], rng=np.random.RandomState(0)))
    require(refused, "a conditional distribution returned samples (rng given)")
    # user-defined sample function
    a = np.arange(n, dtype=float)
    u = D.UserDefinedDistribution(dim=n, logpdf_func=lambda x: 0.0, sample_func=lambda: a + np.random.rand(n))
    np.random.seed(3)
    s1 = u.sample(1)
    require(np.size(s1) == n, "UserDefinedDistribution.sample(1) has wrong size")
    np.random.seed(3)
    S = u.sample(c["N"] + 1)
    require(S.samples.shape == (n, c["N"] + 1), "UserDefinedDistribution.sample(N) is not (dim, N)")
    require(close(S.samples[:, 0], np.asarray(s1, dtype=float).reshape(-1), 0.0), "UserDefinedDistribution draws do not come from sample_func in order")


@st.composite
def refusal_cases(draw, tier="quick"):
    return {"fam": draw(st.sampled_from(["Gaussian", "Gaussian_cov", "GMRF", "Normal", "Gamma"])), "dim": draw(st.integers(1, 4)),
            "N": draw(st.integers(1, 3))}


# ----------------------------------------------------------------------------- draws after parameters were re-assigned

def run_resample(c, rec):
    """a distribution that has already been sampled and is then given new parameter values must sample like a freshly built
    distribution with those values (same generator state -> same draws); the fresh object's law is decided by the affine-law
    sub-checks"""
    import cuqi
    kind, s1, s2 = c["kind"], c["s1"], c["s2"]
    tags = {"kind": kind}
    if kind == "gmrf":
        tags.update(bc=s1["bc"], order=s1["order"], pd=s1["pd"])
    if kind == "gaussian":
        tags.update(param=s1["param"], structure=s2["structure"], structure_before=s1["structure"])
        if c04.superlu_reorders(s1) or c04.superlu_reorders(s2):
            tags["superlu_reorders"] = True
    if rec.classify(tags, True):
        return
    old = cuqi.config.MIN_DIM_SPARSE
    try:
        if kind == "gaussian" and s1["sparse_switch"] == "above":
            cuqi.config.MIN_DIM_SPARSE = 1
        refused, d1 = refuses(lambda: c04._build_any(kind, s1))
        refused2, d2 = refuses(lambda: c04._build_any(kind, s2))
        if refused or refused2:
            raise Violation(f"constructing {kind} from documented parameters failed: {d1 if refused else d2}")
            return
        refused, _ = refuses(lambda: (d1.sample(1, rng=np.random.RandomState(3)), d1.sample(2, rng=np.random.RandomState(4))))
        if refused:
            rec.count("sampling_refused")
            return
        for name in [v for v in d1.get_mutable_variables() if not v.startswith("_")]:
            refused, _ = refuses(lambda: setattr(d1, name, getattr(d2, name)))
            if refused:
                rec.count("assignment_refused")
                return
        for N in (1, 3):
            refused, want = refuses(lambda: d2.sample(N, rng=np.random.RandomState(9)))
            if refused:
                rec.count("fresh_object_refuses")
                return
            got = must(lambda: d1.sample(N, rng=np.random.RandomState(9)), "sampling after re-assigning the parameters")
            gv = np.asarray(got.samples if N > 1 else got, dtype=float)
            wv = np.asarray(want.samples if N > 1 else want, dtype=float)
            require(gv.shape == wv.shape and close(gv, wv, 1e-9),
                    f"{kind}: draws made after new parameter values were assigned to an already sampled object are not the draws of a fresh "
                    f"object with those values (N={N})", got=gv, want=wv)
    finally:
        cuqi.config.MIN_DIM_SPARSE = old


@st.composite
def resample_cases(draw, tier="quick"):
    c = draw(c04.reassign_cases(tier).filter(lambda c: c["kind"] != "family"))
    return c


# ----------------------------------------------------------------------------- N draws with N equal to the dimension

@st.composite
def square_cases(draw, tier="quick"):
    n = draw(st.integers(2, 5))
    return {"fam": draw(st.sampled_from(["Normal", "Laplace", "Uniform", "Gamma", "Beta", "Lognormal", "Gaussian", "InverseGamma"])), "n": n,
            "N": draw(st.sampled_from([n, n, n + 1, max(2, n - 1)])), "seed": draw(st.integers(0, 10 ** 6))}


def run_square(c, rec):
    """draw j is column j, component i is row i - also when the number of draws equals the dimension (the one case where a
    transposed array has the right shape). Components are given well separated ranges, so a single number tells which
    component it belongs to."""
    import cuqi
    D = cuqi.distribution
    n, N, fam = c["n"], c["N"], c["fam"]
    if rec.classify({"fam": fam, "square": N == n}, N == n):
        return
    k = np.arange(n, dtype=float)
    if fam == "Normal":
        d, lo, hi = D.Normal(100.0 * k, 1.0), 100.0 * k - 12, 100.0 * k + 12
    elif fam == "Laplace":
        d, lo, hi = D.Laplace(100.0 * k, 0.5), 100.0 * k - 40, 100.0 * k + 40
    elif fam == "Uniform":
        d, lo, hi = D.Uniform(10.0 * k, 10.0 * k + 1.0), 10.0 * k, 10.0 * k + 1.0
    elif fam == "Gamma":
        d, lo, hi = D.Gamma(shape=400.0 * np.ones(n), rate=400.0 / (10.0 ** k)), 0.5 * 10.0 ** k, 2.0 * 10.0 ** k
    elif fam == "InverseGamma":
        d, lo, hi = D.InverseGamma(shape=400.0 * np.ones(n), location=1000.0 * k, scale=400.0 * np.ones(n)), 1000.0 * k + 0.5, 1000.0 * k + 2.0
    elif fam == "Beta":
        d, lo, hi = D.Beta(alpha=1.0 + 3000.0 * (k + 1) / (n + 1), beta=1.0 + 3000.0 * (n - k) / (n + 1)), (k + 1) / (n + 1) - 0.08, (k + 1) / (n + 1) + 0.08
    elif fam == "Lognormal":
        d, lo, hi = D.Lognormal(5.0 * k, 0.01 * np.eye(n)), np.exp(5.0 * k - 1.5), np.exp(5.0 * k + 1.5)
    else:
        d, lo, hi = D.Gaussian(100.0 * k, np.diag(np.ones(n))), 100.0 * k - 12, 100.0 * k + 12
    S = must(lambda: d.sample(N, rng=np.random.RandomState(c["seed"])), f"{fam}.sample({N})")
    X = np.asarray(S.samples, dtype=float)
    require(X.shape == (n, N), f"{fam}: {N} draws of a {n}-dimensional distribution are not an array with one column per draw", shape=X.shape)
    inside = (X >= lo[:, None]) & (X <= hi[:, None])
    require(bool(np.all(inside)), f"{fam}: with N = {N} draws of dimension {n} an entry of row i does not belong to component i (components and draws exchanged?)",
            samples=X, lower=lo, upper=hi)


SUBCHECKS = [
    SubCheck("C05/square_batch", run_square, strategy=square_cases, n={"quick": 300, "thorough": 3000}, shards={"quick": 2, "thorough": 4}),
    SubCheck("C05/resample_after_reassign", run_resample, strategy=resample_cases, n={"quick": 400, "thorough": 8000}, shards={"quick": 4, "thorough": 16}),
    SubCheck("C05/gaussian_affine_law", run_gauss, strategy=c04.gauss_cases, n={"quick": 1500, "thorough": 10000},
             shards={"quick": 4, "thorough": 16}),
    SubCheck("C05/gmrf_affine_law", run_gmrf, strategy=c20.gmrf_cases, n={"quick": 300, "thorough": 5000},
             shards={"quick": 4, "thorough": 16}),
    SubCheck("C05/lognormal_affine_law", run_lognormal, strategy=lognormal_cases, n={"quick": 150, "thorough": 3000},
             shards={"quick": 2, "thorough": 8}),
    SubCheck("C05/pit", run_pit, strategy=pit_cases, n={"quick": 160, "thorough": 3000}, shards={"quick": 8, "thorough": 16},
             shrink=False),
    SubCheck("C05/refusal_and_user", run_refusal, strategy=refusal_cases, n={"quick": 60, "thorough": 300}),
]
