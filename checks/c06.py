"""C06 - linear randomize-then-optimize draws are exact Gaussian posterior draws; UGLA draws from its local Gaussian."""
import numpy as np
from hypothesis import strategies as st

from vlib.core import SubCheck, Violation, require, close, maxdiff, A, must, refuses
from vlib import gen
from vlib.rand import ScriptedRNG, patched_global
from checks import c15, c20

PROPERTY = "C06"
RULE = ("Hypothesis draws forward matrices (under/over-determined, n <= 6), 1-3 likelihoods with noise in every Gaussian input "
        "form, priors in every Gaussian form with non-zero mean or GMRF priors, matrix- or function-backed linear models, the "
        "sampler interface (cuqi.experimental.mcmc / cuqi.sampler incl. the 5-tuple input), the current state; for UGLA an LMRF "
        "prior (bc, scale, location), beta and the current state. The standard-normal perturbation is scripted (zero vector, unit "
        "vectors, a combination), which reveals offset and linear map of the new state exactly. Non-trivial: A non-square or "
        "non-identity with >= 2 rows and (non-scalar covariance or prior mean != 0 or >= 2 likelihoods); distinct = distinct case.")
ASSUMPTIONS = ["inner solver run to convergence: maxit = 20n+100, tol = 1e-14; a returned point whose reference normal-equation residual exceeds "
               "1e-7 is inconclusive (solver budget), not a violation",
               "UGLA reference: precision A^T Gamma^-1 A + (1/scale) D^T W_k D with W_k = diag(1/sqrt((D x_k)^2 + beta)), centred at the prior location"]


@st.composite
def rto_cases(draw, tier="quick"):
    n = draw(st.integers(2, 5 if tier == "quick" else 7))
    nl = draw(st.sampled_from([1, 1, 2, 3]))
    liks = []
    for i in range(nl):
        m = draw(st.integers(1, 6))
        liks.append({"m": m, "A": draw(gen.mat(m, n, -1, 1)),
                     "form": draw(st.sampled_from(["cov_scalar", "cov_vector", "cov_matrix", "prec_scalar", "prec_matrix", "sqrtprec_matrix", "sqrtcov_vector"])),
                     "var": draw(st.lists(gen.logpos(-1.0, 0.3), min_size=m, max_size=m)), "G": draw(gen.mat(m, m, -0.4, 0.4)),
                     "data": draw(gen.vec(m, -2, 2)), "backing": draw(st.sampled_from(["matrix", "function"]))})
    prior = draw(st.sampled_from(["gauss", "gauss", "gmrf"]))
    c = {"n": n, "liks": liks, "prior": prior,
         "pform": draw(st.sampled_from(["cov_scalar", "cov_vector", "cov_matrix", "prec_vector", "sqrtprec_matrix", "sqrtcov_scalar"])),
         "pvar": draw(st.lists(gen.logpos(-0.7, 0.7), min_size=n, max_size=n)), "PG": draw(gen.mat(n, n, -0.4, 0.4)),
         "pmean_kind": draw(st.sampled_from(["zero", "vector", "scalar"])), "pmean": draw(gen.vec(n, -1, 1)),
         "gmrf_order": draw(st.sampled_from([1, 2])), "gmrf_prec": draw(gen.logpos(-0.5, 0.7)),
         "interface": draw(st.sampled_from(["experimental", "legacy", "legacy_tuple"])),
         "x0": draw(gen.vec(n, -2, 2)), "x0b": draw(gen.vec(n, -2, 2)),
         "sparse_switch": draw(st.sampled_from(["below", "below", "above"])),
         # overall scale of the prior standard deviations (1e-4: covariance entries ~1e-8 and smaller)
         "pscale_pow": draw(st.sampled_from([0, 0, 0, -4])),
         # the prior object was first set up with other values, used, and then given its values through the public setters
         "prior_reassigned": draw(st.sampled_from([False, False, True])),
         # the likelihoods may all be built on ONE model object (same A, e.g. two data sets of the same experiment)
         "shared_model": draw(st.sampled_from([False, False, True])),
         # memory layout of the model matrix and the data vectors
         "layout": draw(st.sampled_from(gen.LAYOUTS)),
         # integer-typed variance vectors (noise variances written as ints)
         "int_vars": draw(st.sampled_from([False, False, False, True]))}
    # the same problem in other physical units: data, noise and prior standard deviations and the prior mean all times 1e5
    c["unit_pow"] = draw(st.sampled_from([0, 0, 0, 5]))
    if draw(st.integers(0, 11)) == 0:
        # a larger, less well conditioned problem (second-order GMRF prior on 24 / 40 nodes, half as many data): the inner solver
        # needs many more iterations than there are unknowns in floating point; entries come from a seeded stream
        n = draw(st.sampled_from([24, 40]))
        rs = np.random.RandomState(draw(st.integers(0, 10 ** 6)))
        m = n // 2
        liks = [{"m": m, "A": rs.uniform(-1, 1, (m, n)).tolist(), "form": "cov_scalar", "var": [float(10 ** rs.uniform(-2, -1))] * m,
                 "G": np.zeros((m, m)).tolist(), "data": rs.uniform(-2, 2, m).tolist(), "backing": draw(st.sampled_from(["matrix", "function"]))}]
        c.update(n=n, liks=liks, prior="gmrf", gmrf_order=2, pmean_kind="zero", pmean=[0.0] * n, pvar=[1.0] * n, PG=np.zeros((n, n)).tolist(),
                 x0=rs.uniform(-2, 2, n).tolist(), x0b=rs.uniform(-2, 2, n).tolist(), shared_model=False, int_vars=False, large=True,
                 prior_reassigned=False)
    if c["shared_model"] and len(liks) > 1:
        for lk in liks[1:]:
            lk["m"], lk["A"], lk["backing"] = liks[0]["m"], liks[0]["A"], liks[0]["backing"]
            lk["var"] = (lk["var"] * 6)[:liks[0]["m"]]
            lk["G"] = [row[:liks[0]["m"]] + [0.0] * max(0, liks[0]["m"] - len(row)) for row in (lk["G"] + [[0.0] * liks[0]["m"]] * liks[0]["m"])[:liks[0]["m"]]]
            lk["data"] = (lk["data"] * 6)[:liks[0]["m"]]
    if c["int_vars"]:
        c["unit_pow"] = 0
        liks[0]["form"] = "cov_vector"      # (the option concerns vectors of variances)
        for lk in liks:
            if lk["form"] == "cov_vector":
                lk["var"] = [float(max(1, round(4 * v))) for v in lk["var"]]
    if c["interface"] == "legacy_tuple":
        c["liks"] = c["liks"][:1]
        c["prior"] = "gauss"
    return c


FAIL = {"n": None}     # countdown to one failure of a user forward callable (armed by C06/history_independence)


def build_rto_target(c):
    import cuqi
    n = c["n"]
    U = 10.0 ** c.get("unit_pow", 0)
    mu = U * (A(c["pmean"]) if c["pmean_kind"] == "vector" else (np.full(n, float(c["pmean"][0])) if c["pmean_kind"] == "scalar" else np.zeros(n)))
    # a scalar mean is handed over as a scalar (broadcast by the distribution over its geometry)
    mu_arg = (lambda: U * float(c["pmean"][0])) if c["pmean_kind"] == "scalar" else (lambda: mu.copy())
    if c["prior"] == "gauss":
        pkw, Sx = c15.form_arg(c["pform"], c["pvar"], c["PG"])
        ps = 10.0 ** c.get("pscale_pow", 0) * U
        if ps != 1.0:
            (key, val), = pkw.items()
            fac = {"cov": ps ** 2, "prec": ps ** -2, "sqrtcov": ps, "sqrtprec": 1 / ps}[key]
            pkw = {key: val * fac}
            Sx = Sx * ps ** 2
        if c.get("prior_reassigned"):
            (key, val), = pkw.items()
            x = cuqi.distribution.Gaussian(mu * 0.5 + 0.1, **{key: val * 3.0}, name="x")
            _ = (x.sqrtprec, x.logd(np.zeros(n)), x.sqrtprecTimesMean)
            x.mean = mu.copy()
            setattr(x, key, val)
        else:
            x = cuqi.distribution.Gaussian(mu_arg(), **pkw, geometry=n, name="x")
        Pinv = np.linalg.inv(Sx)
    else:
        # (an MRF with the same number of nodes on the other grid layout is built and used first, see c20.decoy_other_layout)
        c20.decoy_other_layout(1, n, "zero", c["gmrf_order"])
        if c.get("prior_reassigned"):
            x = cuqi.distribution.GMRF(mu * 0.5 + 0.1, c["gmrf_prec"] * 3.0, bc_type="zero", order=c["gmrf_order"], name="x")
            _ = (x.sqrtprec, x.logd(np.zeros(n)), x.sqrtprecTimesMean)
            x.mean = mu.copy()
            x.prec = c["gmrf_prec"] / U ** 2
        else:
            x = cuqi.distribution.GMRF(mu.copy(), c["gmrf_prec"] / U ** 2, bc_type="zero", order=c["gmrf_order"], name="x")
        D = c20.ref_D(n, "zero", c["gmrf_order"])
        Pinv = c["gmrf_prec"] / U ** 2 * D.T @ D
    ys, parts = [], []
    shared = None
    shared_applied = None
    for i, lk in enumerate(c["liks"]):
        Am = A(lk["A"])
        m = lk["m"]
        if c.get("shared_model") and shared is not None:
            model = shared
        elif lk["backing"] == "matrix":
            model = cuqi.model.LinearModel(gen.relayout(Am, c.get("layout", "plain")))
        else:
            def _fw(v, M=Am):
                # (a user callable that fails once - a transient error, an interrupt - when the harness arms FAIL)
                if FAIL["n"] is not None:
                    FAIL["n"] -= 1
                    if FAIL["n"] <= 0:
                        FAIL["n"] = None
                        raise RuntimeError("user forward failed once")
                return M @ v
            model = cuqi.model.LinearModel(_fw, (lambda M: (lambda w: M.T @ w))(Am), range_geometry=m, domain_geometry=n)
        shared = model
        nkw, Se = c15.form_arg(lk["form"], lk["var"], lk["G"])
        if U != 1.0:
            (key, val), = nkw.items()
            nkw = {key: val * {"cov": U ** 2, "prec": U ** -2, "sqrtcov": U, "sqrtprec": 1 / U}[key]}
            Se = Se * U ** 2
        if c.get("int_vars") and lk["form"] == "cov_vector":
            nkw = {"cov": np.array([int(v) for v in lk["var"]])}
        # (the forward model applied to x is built once and re-used when the likelihoods share it: one model object, several data sets)
        if c.get("shared_model") and shared_applied is not None:
            Ax = shared_applied
        else:
            Ax = model(x)
        shared_applied = Ax
        ys.append(cuqi.distribution.Gaussian(Ax, **nkw, geometry=m, name=f"y{i}"))
        parts.append((Am, np.linalg.inv(Se), U * A(lk["data"])))
    J = cuqi.distribution.JointDistribution(*ys, x)
    target = J(**{f"y{i}": gen.relayout(U * A(lk["data"]), c.get("layout", "plain")) for i, lk in enumerate(c["liks"])})
    Lam = Pinv + sum(Am.T @ Gi @ Am for Am, Gi, b in parts)
    rhs = Pinv @ mu + sum(Am.T @ Gi @ b for Am, Gi, b in parts)
    return target, Lam, rhs, mu, parts


def one_step_factory(c, target, parts, mu):
    """returns (k, step(e, x0) -> new state) for the chosen interface"""
    import cuqi
    n = c["n"]
    maxit, tol = 20 * n + 100, 1e-14
    k = sum(lk["m"] for lk in c["liks"]) + n
    if c["interface"] == "experimental":
        s = cuqi.experimental.mcmc.LinearRTO(target, initial_point=A(c["x0"]), maxit=maxit, tol=tol)
        s.initialize()

        def step(e, x0):
            s.current_point = np.array(x0, dtype=float)
            with patched_global(ScriptedRNG(normal=list(e))) as r:
                s.step()
                require(len(r.q["normal"]) == 0, "LinearRTO consumed fewer normal draws than rows of the stacked system")
            return np.asarray(s.current_point, dtype=float).copy()
        return k, step, s
    if c["interface"] == "legacy":
        def mk(x0):
            return cuqi.sampler.LinearRTO(target, x0=np.array(x0, dtype=float), maxit=maxit, tol=tol)
    else:
        Am, Gi, b = parts[0]
        Lsp = np.linalg.cholesky(Gi).T
        Psp = np.asarray(target.prior.sqrtprec.todense() if hasattr(target.prior.sqrtprec, "todense") else target.prior.sqrtprec)

        def mk(x0):
            return cuqi.sampler.LinearRTO((b.copy(), Am.copy(), Lsp, mu.copy(), Psp), x0=np.array(x0, dtype=float), maxit=maxit, tol=tol)

    def step(e, x0):
        s = mk(x0)
        with patched_global(ScriptedRNG(normal=list(e))) as r:
            S = s.sample(2)
            require(len(r.q["normal"]) == 0, "LinearRTO consumed fewer normal draws than rows of the stacked system")
        X = np.asarray(S.samples, dtype=float)
        require(maxdiff(X[:, 0], np.array(x0, dtype=float)) == 0, "legacy LinearRTO: first sample is not x0")
        return X[:, 1].copy()
    return k, step, mk(A(c["x0"]))


def run_rto(c, rec):
    import cuqi
    old = cuqi.config.MIN_DIM_SPARSE
    try:
        if c.get("sparse_switch") == "above":
            # the documented, modifiable threshold above which Gaussians keep sparse square roots: lowering it sends these
            # small cases through the code path that true sizes > 75 take
            cuqi.config.MIN_DIM_SPARSE = 1
        _run_rto(c, rec)
    finally:
        cuqi.config.MIN_DIM_SPARSE = old


def _run_rto(c, rec):
    import cuqi
    n = c["n"]
    nl = len(c["liks"])
    nontriv = any(lk["m"] >= 2 for lk in c["liks"]) and (nl >= 2 or c["pmean_kind"] == "vector" or c["prior"] == "gmrf" or
                                                         any(lk["form"] != "cov_scalar" for lk in c["liks"]) or c["pform"] != "cov_scalar")
    tags = {"interface": c["interface"], "nlik": nl, "prior": c["prior"], "pmean": c["pmean_kind"],
            "backing": "+".join(sorted(set(lk["backing"] for lk in c["liks"]))), "sparse_switch": c.get("sparse_switch", "below"),
            "pscale_pow": c.get("pscale_pow", 0), "prior_reassigned": bool(c.get("prior_reassigned")),
            "shared_model": bool(c.get("shared_model")) and nl > 1, "int_vars": bool(c.get("int_vars")), "unit_pow": c.get("unit_pow", 0),
            "large": bool(c.get("large"))}
    if rec.classify(tags, nontriv):
        return
    refused, built = refuses(lambda: build_rto_target(c))
    if refused:
        raise Violation(f"building the linear-Gaussian posterior failed: {type(built).__name__}: {built}")
        return
    target, Lam, rhs, mu, parts = built
    refused, fac = refuses(lambda: one_step_factory(c, target, parts, mu))
    if refused:
        require(False, f"constructing LinearRTO ({c['interface']}) on a linear-Gaussian posterior failed: {fac}")
    k, step, sampler = fac
    x0, x0b = A(c["x0"]), A(c["x0b"])
    a = must(lambda: step(np.zeros(k), x0), "LinearRTO step")
    xstar = np.linalg.solve(Lam, rhs)
    C = np.linalg.inv(Lam)
    sd = np.sqrt(np.diag(C))
    # solver budget: the returned point must solve the unperturbed normal equations
    if np.linalg.norm(Lam @ a - rhs) > 1e-7 * (1 + np.linalg.norm(rhs)):
        # not converged => decided by C16, but a wrong *system* also lands here: distinguish by the affine law below
        pass
    B = np.zeros((n, k))
    for i in range(k):
        e = np.zeros(k)
        e[i] = 1.0
        B[:, i] = step(e, x0) - a
    e = np.cos(1.0 + np.arange(k))
    require(maxdiff(step(e, x0), a + B @ e) <= 1e-7 * (float(np.max(np.abs(a))) + float(np.max(np.abs(B))) * k),
            "LinearRTO: the new state is not an affine function of the normal perturbation")
    require(np.max(np.abs(a - xstar) / sd) <= 1e-6 * max(1.0, np.max(np.abs(xstar) / sd)),
            f"LinearRTO ({c['interface']}): offset of the draw is not the posterior mean", got=a, want=xstar)
    require(maxdiff(B @ B.T, C) <= 1e-6 * float(np.max(np.abs(C))), f"LinearRTO ({c['interface']}): linear part does not reproduce the posterior covariance",
            got=B @ B.T, want=C)
    # irrespective of the current state
    a2 = step(np.zeros(k), x0b)
    require(np.max(np.abs(a2 - a) / sd) <= 1e-6 * max(1.0, np.max(np.abs(a) / sd)), "LinearRTO: the draw depends on the current state", a=a, a2=a2)
    # stacked operator: adjoint is the transpose of forward
    M = sampler.M
    if callable(M):
        F = np.array([M(np.eye(n)[i], 1) for i in range(n)]).T
        Gt = np.array([M(np.eye(k)[j], 2) for j in range(k)]).T
        require(F.shape == (k, n) and close(Gt, F.T, 1e-10), "stacked operator: adjoint action is not the transpose of the forward action")


# ----------------------------------------------------------------------------- UGLA

@st.composite
def ugla_cases(draw, tier="quick"):
    n = draw(st.integers(3, 6))
    m = draw(st.integers(2, 6))
    return {"n": n, "m": m, "A": draw(gen.mat(m, n, -1, 1)), "nvar": draw(gen.logpos(-1, 0.3)), "data": draw(gen.vec(m, -2, 2)),
            "bc": draw(st.sampled_from(["zero", "neumann", "periodic"])), "scale": draw(gen.logpos(-1, 0.5)),
            "loc_kind": draw(st.sampled_from(["zero", "zero", "scalar", "vector"])), "loc": draw(gen.vec(n, -1, 1)),
            "beta": draw(st.sampled_from([1e-5, 1e-2, 0.5])), "xk": draw(gen.vec(n, -2, 2)),
            "interface": draw(st.sampled_from(["experimental", "legacy"])), "backing": draw(st.sampled_from(["matrix", "function"]))}


def run_ugla(c, rec):
    import cuqi
    n, m = c["n"], c["m"]
    tags = {"interface": c["interface"], "bc": c["bc"], "location": c["loc_kind"]}
    if rec.classify(tags, True):
        return
    Am = A(c["A"])
    loc = {"zero": 0.0, "scalar": float(c["loc"][0]), "vector": A(c["loc"])}[c["loc_kind"]]
    mu = np.broadcast_to(np.asarray(loc, dtype=float), (n,)).copy()
    model = cuqi.model.LinearModel(Am) if c["backing"] == "matrix" else \
        cuqi.model.LinearModel(lambda v: Am @ v, lambda w: Am.T @ w, range_geometry=m, domain_geometry=n)
    x = cuqi.distribution.LMRF(loc, c["scale"], bc_type=c["bc"], geometry=n, name="x")
    y = cuqi.distribution.Gaussian(model(x), c["nvar"], geometry=m, name="y")
    b = A(c["data"])
    target = cuqi.distribution.JointDistribution(y, x)(y=b)
    xk = A(c["xk"])
    D = c20.ref_D(n, c["bc"], 1)
    k = m + D.shape[0]
    maxit, tol = 40 * n + 200, 1e-14
    if c["interface"] == "experimental":
        s = cuqi.experimental.mcmc.UGLA(target, initial_point=xk.copy(), maxit=maxit, tol=tol, beta=c["beta"])
        s.initialize()

        def step(e):
            s.current_point = xk.copy()
            with patched_global(ScriptedRNG(normal=list(e))) as r:
                s.step()
                require(len(r.q["normal"]) == 0, "UGLA consumed fewer normal draws than rows of the stacked system")
            return np.asarray(s.current_point, dtype=float).copy()
    else:
        def step(e):
            s = cuqi.sampler.UGLA(target, x0=xk.copy(), maxit=maxit, tol=tol, beta=c["beta"])
            with patched_global(ScriptedRNG(normal=list(e))) as r:
                S = s.sample(2)
                require(len(r.q["normal"]) == 0, "UGLA consumed fewer normal draws than rows of the stacked system")
            return np.asarray(S.samples, dtype=float)[:, 1].copy()
    a = must(lambda: step(np.zeros(k)), "UGLA step")
    W = np.diag(1.0 / np.sqrt((D @ (xk - mu)) ** 2 + c["beta"]))
    Lam = Am.T @ Am / c["nvar"] + (1.0 / c["scale"]) * D.T @ W @ D
    rhs = Am.T @ b / c["nvar"] + (1.0 / c["scale"]) * D.T @ W @ D @ mu
    if np.linalg.cond(Lam) > 1e8:
        rec.inconc("ill_conditioned_local_gaussian")
        return
    xstar = np.linalg.solve(Lam, rhs)
    C = np.linalg.inv(Lam)
    sd = np.sqrt(np.diag(C))
    B = np.zeros((n, k))
    for i in range(k):
        e = np.zeros(k)
        e[i] = 1.0
        B[:, i] = step(e) - a
    e = np.cos(1.0 + np.arange(k))
    require(close(step(e), a + B @ e, 1e-6), "UGLA: the new state is not an affine function of the normal perturbation")
    require(close(B @ B.T, C, 1e-5), f"UGLA ({c['interface']}): covariance of the draw is not that of the documented local Gaussian at the current state",
            got=B @ B.T, want=C)
    require(np.max(np.abs(a - xstar) / sd) <= 1e-5 * max(1.0, np.max(np.abs(xstar) / sd)),
            f"UGLA ({c['interface']}): offset of the draw is not the mean of the documented local Gaussian at the current state", got=a, want=xstar)


# ----------------------------------------------------------------------------- the draw depends on the current state only

@st.composite
def hist_cases(draw, tier="quick"):
    kind = draw(st.sampled_from(["rto", "ugla", "ugla"]))
    c = draw(rto_cases(tier)) if kind == "rto" else draw(ugla_cases(tier))
    if kind == "rto" and c["interface"] == "legacy_tuple":
        c["interface"] = "legacy"
    c["kind"] = kind
    c["steps"] = draw(st.integers(2, 4))
    c["useed"] = draw(st.integers(0, 10 ** 6))
    c["beta_reassigned"] = draw(st.booleans())
    c["fail_once"] = draw(st.booleans())
    if kind == "rto" and c["fail_once"] and c["interface"] == "experimental":
        for lk in c["liks"]:
            lk["backing"] = "function"
    return c


def run_hist(c, rec):
    """Markov property of the kernel, independent of any formula: a sampler that reaches x_k by its own steps and a fresh
    sampler started at x_k must map the same normal perturbation to the same next state (nothing computed at an earlier
    state may survive into the step)."""
    import cuqi
    kind, nst = c["kind"], c["steps"]
    tags = {"kind": kind, "interface": c["interface"], "steps": nst}
    if kind == "ugla":
        tags["location"] = c["loc_kind"]
    if rec.classify(tags, True, cls=f"{kind},{c['interface']}" + (f",location={c['loc_kind']}" if kind == "ugla" else "")):
        return
    n = c["n"]
    if kind == "rto":
        refused, built = refuses(lambda: build_rto_target(c))
        if refused:
            raise Violation(f"building the linear-Gaussian posterior failed: {type(built).__name__}: {built}")
            return
        target = built[0]
        x0 = A(c["x0"])
        k = sum(lk["m"] for lk in c["liks"]) + n
        maxit, tol = 20 * n + 100, 1e-14
        mk_new = lambda x: cuqi.experimental.mcmc.LinearRTO(target, initial_point=x.copy(), maxit=maxit, tol=tol)
        mk_old = lambda x: cuqi.sampler.LinearRTO(target, x0=x.copy(), maxit=maxit, tol=tol)
    else:
        Am = A(c["A"])
        m = c["m"]
        loc = {"zero": 0.0, "scalar": float(c["loc"][0]), "vector": A(c["loc"])}[c["loc_kind"]]
        model = cuqi.model.LinearModel(Am) if c["backing"] == "matrix" else \
            cuqi.model.LinearModel(lambda v: Am @ v, lambda w: Am.T @ w, range_geometry=m, domain_geometry=n)
        x = cuqi.distribution.LMRF(loc, c["scale"], bc_type=c["bc"], geometry=n, name="x")
        y = cuqi.distribution.Gaussian(model(x), c["nvar"], geometry=m, name="y")
        target = cuqi.distribution.JointDistribution(y, x)(y=A(c["data"]))
        x0 = A(c["xk"])
        k = m + c20.ref_D(n, c["bc"], 1).shape[0]
        maxit, tol = 40 * n + 200, 1e-14
        mk_new = lambda x, beta=None: cuqi.experimental.mcmc.UGLA(target, initial_point=x.copy(), maxit=maxit, tol=tol, beta=c["beta"] if beta is None else beta)
        mk_old = lambda x: cuqi.sampler.UGLA(target, x0=x.copy(), maxit=maxit, tol=tol, beta=c["beta"])
    E = np.random.RandomState(c["useed"]).standard_normal((nst, k))

    def chain(xstart, es):
        """states after each of len(es) steps from xstart with the scripted perturbations"""
        flat = [v for e in es for v in e]
        if c["interface"] == "experimental":
            whole = len(es) > 1
            if kind == "ugla" and whole and c.get("beta_reassigned"):
                # the smoothing parameter given through the public attribute after the sampler was set up with another value
                s = mk_new(xstart, beta=30.0 * c["beta"])
                s.initialize()
                s.beta = c["beta"]
            else:
                s = mk_new(xstart)
                s.initialize()
            out = []
            for j, e in enumerate(es):
                if kind == "rto" and whole and c.get("fail_once") and j == 1:
                    # a user callable fails once inside this step; the user catches the error and makes the step again
                    FAIL["n"] = 2
                    try:
                        with patched_global(ScriptedRNG(normal=list(e), fallback_seed=1)):
                            try:
                                s.step()
                            except RuntimeError:
                                pass
                    finally:
                        FAIL["n"] = None
                    s.current_point = np.array(out[-1], dtype=float)
                with patched_global(ScriptedRNG(normal=list(e))):
                    s.step()
                out.append(np.asarray(s.current_point, dtype=float).copy())
            return out
        s = mk_old(xstart)
        with patched_global(ScriptedRNG(normal=flat)):
            S = s.sample(len(es) + 1)
        X = np.asarray(S.samples, dtype=float)
        return [X[:, i + 1].copy() for i in range(len(es))]
    full = must(lambda: chain(x0, list(E)), f"{kind} chain")
    for j in range(1, nst):
        one = must(lambda: chain(full[j - 1], [E[j]]), f"{kind} step")[0]
        scale = 1.0 + np.max(np.abs(full[j]))
        require(np.max(np.abs(one - full[j])) <= 1e-6 * scale,
                f"{'LinearRTO' if kind == 'rto' else 'UGLA'} ({c['interface']}): step {j + 1} of a chain differs from the step a fresh sampler started at the "
                "same state makes with the same normal perturbation (the kernel depends on more than the current state)",
                step=j + 1, chain=full[j], fresh=one)


SUBCHECKS = [
    SubCheck("C06/linear_rto", run_rto, strategy=rto_cases, n={"quick": 800, "thorough": 10000}, shards={"quick": 8, "thorough": 16}),
    SubCheck("C06/ugla", run_ugla, strategy=ugla_cases, n={"quick": 300, "thorough": 6000}, shards={"quick": 8, "thorough": 16}),
    SubCheck("C06/history_independence", run_hist, strategy=hist_cases, n={"quick": 300, "thorough": 6000}, shards={"quick": 8, "thorough": 16}),
]
