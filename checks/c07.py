"""C07 - a linear model's adjoint is the transpose of its forward map.

Finite-dimensional and linear, so each generated model is decided on bases:
F[:,i] = forward(e_i), G[:,j] = adjoint(e_j); require G = F^T, get_matrix() = F,
T swaps the two; plus <Ax,y> = <x,A*y> on generated vectors (ndarray and CUQIarray input).
"""
import numpy as np
from hypothesis import strategies as st

from vlib.core import SubCheck, Violation, require, close, maxdiff, A, must, refuses
from vlib import gen

PROPERTY = "C07"
RULE = ("Hypothesis draws (backing in dense/sparse matrix/function pair, domain and range geometry spec, matrix "
        "entries, x, y) and, for shipped problems, the constructor options (PSF kind/parameter/size parity/custom "
        "asymmetric array, boundary condition, dim). Non-trivial: the parameter-to-parameter matrix F is not "
        "symmetric (non-square or F != F^T), so that transposition is visible; distinct = distinct generated case.")
ASSUMPTIONS = ["forward/adjoint are linear on parameter vectors, hence decided by their action on unit vectors",
               "tolerance 1e-9 relative for matrix identities (FFT convolution and DST round-off)"]

TOL = 1e-9


def dense(M):
    return M.toarray() if hasattr(M, "toarray") else np.asarray(M, dtype=float)


def probe(fn, n):
    cols = []
    for i in range(n):
        e = np.zeros(n)
        e[i] = 1.0
        cols.append(np.asarray(fn(e), dtype=float).ravel())
    return np.array(cols).T


def check_model(model, x, y, rec, tags, what, check_T=True):
    """The body of the property for one LinearModel instance."""
    import cuqi
    n, m = model.domain_dim, model.range_dim
    F = must(lambda: probe(model.forward, n), f"{what}: forward on unit vectors")
    G = must(lambda: probe(model.adjoint, m), f"{what}: adjoint on unit vectors")
    require(F.shape == (m, n), f"{what}: forward(e_i) has wrong length", shape=F.shape)
    require(G.shape == (n, m), f"{what}: adjoint(e_j) has wrong length", shape=G.shape)
    nontrivial = (m != n) or maxdiff(F, F.T) > 1e-9 * max(1.0, np.abs(F).max())
    if rec.classify(tags, nontrivial):
        return
    scale = max(1.0, np.abs(F).max())
    require(maxdiff(G, F.T) <= TOL * scale,
            f"{what}: adjoint is not the transpose of forward (max err {maxdiff(G, F.T):.3g})", F=F, G=G)
    Mx = dense(must(lambda: model.get_matrix(), f"{what}: get_matrix"))
    require(Mx.shape == F.shape and maxdiff(Mx, F) <= TOL * scale,
            f"{what}: get_matrix() does not reproduce forward column by column", M=Mx, F=F)
    # inner product identity with plain arrays and geometry-carrying arrays
    x = np.asarray(x, dtype=float)[:n]
    y = np.asarray(y, dtype=float)[:m]
    Ax = np.asarray(model.forward(x), dtype=float).ravel()
    Aty = np.asarray(model.adjoint(y), dtype=float).ravel()
    lhs, rhs = float(Ax @ y), float(x @ Aty)
    require(abs(lhs - rhs) <= 1e-8 * (1 + np.linalg.norm(Ax) * np.linalg.norm(y) + np.linalg.norm(x) * np.linalg.norm(Aty)),
            f"{what}: <Ax,y> != <x,A*y>", lhs=lhs, rhs=rhs)
    # the same signal in other units: a linear map commutes with scaling by a power of two exactly (no rounding), whatever the
    # magnitude - 7e-15 (an image in tiny units) or 1e9. Only asked where forward is linear at unit scale (identity-like geometries).
    if maxdiff(np.asarray(model.forward(2.0 * x), dtype=float).ravel(), 2.0 * Ax) <= 1e-12 * (1 + np.max(np.abs(Ax))):
        for fn, v, out, name in ((model.forward, x, Ax, "forward"), (model.adjoint, y, Aty, "adjoint")):
            for sc_ in (2.0 ** -47, 2.0 ** 30):
                got_s = np.asarray(fn(sc_ * v), dtype=float).ravel()
                # (1e-290: products that underflow at one magnitude and not at the other)
                require(maxdiff(got_s, sc_ * out) <= 1e-12 * sc_ * (np.max(np.abs(out)) if out.size else 0.0) + 1e-290,
                        f"{what}: {name}(s*v) != s*{name}(v) for s = {sc_:.3g} (the operator is not homogeneous at this magnitude)",
                        scaled=got_s, expected=sc_ * out)
    xa = cuqi.array.CUQIarray(x, is_par=True, geometry=model.domain_geometry)
    ya = cuqi.array.CUQIarray(y, is_par=True, geometry=model.range_geometry)
    require(close(np.asarray(model.forward(xa)).ravel(), Ax, 1e-10), f"{what}: forward differs on CUQIarray input")
    require(close(np.asarray(model.adjoint(ya)).ravel(), Aty, 1e-10), f"{what}: adjoint differs on CUQIarray input")
    require(close(np.asarray(model @ x).ravel(), Ax, 1e-12), f"{what}: model @ x != forward(x)")
    # integer-typed input (an impulse, a mask, a uint8 image): the same linear map
    xi_ = np.round(3 * x).astype(int)
    yi_ = np.round(3 * y).astype(int)
    r1, fi = refuses(lambda: np.asarray(model.forward(xi_), dtype=float).ravel())
    r2, ff = refuses(lambda: np.asarray(model.forward(xi_.astype(float)), dtype=float).ravel())
    if not r1 and not r2:
        require(close(fi, ff, 1e-12), f"{what}: forward on an integer-typed array differs from forward on the same values as floats", int_input=fi, float_input=ff)
    r1, ai = refuses(lambda: np.asarray(model.adjoint(yi_), dtype=float).ravel())
    r2, af = refuses(lambda: np.asarray(model.adjoint(yi_.astype(float)), dtype=float).ravel())
    if not r1 and not r2:
        require(close(ai, af, 1e-12), f"{what}: adjoint on an integer-typed array differs from adjoint on the same values as floats", int_input=ai, float_input=af)
    if not check_T:
        return
    T = must(lambda: model.T, f"{what}: .T")
    require(T.domain_dim == m and T.range_dim == n, f"{what}: T does not swap the dimensions")
    FT = probe(T.forward, m)
    GT = probe(T.adjoint, n)
    require(maxdiff(FT, G) <= TOL * scale, f"{what}: T.forward is not adjoint")
    require(maxdiff(GT, F) <= TOL * scale, f"{what}: T.adjoint is not forward")
    MT = dense(T.get_matrix())
    require(MT.shape == (n, m) and maxdiff(MT, F.T) <= TOL * scale, f"{what}: T.get_matrix() is not the transposed matrix",
            MT=MT, Ft=F.T)
    TT = T.T
    require(maxdiff(probe(TT.forward, n), F) <= TOL * scale, f"{what}: T.T.forward is not forward")
    require(T.domain_geometry == model.range_geometry and T.range_geometry == model.domain_geometry,
            f"{what}: T does not swap the geometries")


# ----------------------------------------------------------------------------- generic models

@st.composite
def generic_cases(draw, tier="quick"):
    hi = 6 if tier == "quick" else 10
    backing = draw(st.sampled_from(["dense", "csr", "csc", "func", "func", "view", "roll"]))
    two_d = backing == "func" and draw(st.booleans())
    if two_d:
        dshape = [draw(st.integers(2, 3)), draw(st.integers(2, 3))]
        rshape = [draw(st.integers(2, 3)), draw(st.integers(2, 3))]
        dom = {"kind": draw(st.sampled_from(["image", "cont2d"])), "shape": dshape, "order": draw(st.sampled_from(["C", "F"]))}
        ran = {"kind": draw(st.sampled_from(["image", "cont2d"])), "shape": rshape, "order": draw(st.sampled_from(["C", "F"]))}
        nf, mf = dshape[0] * dshape[1], rshape[0] * rshape[1]
    else:
        nf = draw(st.integers(1, hi))
        mf = draw(st.integers(1, hi))
        sel = None
        if backing == "view":
            # a function pair whose forward returns a *view* of its input (restriction to a prefix / every second entry)
            sel = draw(st.sampled_from(["prefix", "stride", "all"]))
            mf = {"prefix": min(mf, nf), "stride": (nf + 1) // 2, "all": nf}[sel]
        if backing == "roll":
            mf = nf     # x - 0.6 * roll(x): written with numpy functions that act along the last axis of whatever they are given
        kinds = gen.IDENTITY_LIKE_1D * 3 + ["kl", "step"]
        dom = draw(gen.geom1d_spec(nf, kinds))
        ran = draw(gen.geom1d_spec(mf, kinds))
    Amat = draw(gen.mat(mf, nf))
    x = draw(gen.vec(max(nf, 1)))
    y = draw(gen.vec(max(mf, 1)))
    c = {"layout": draw(st.sampled_from(gen.LAYOUTS)), "backing": backing, "dom": dom, "ran": ran, "A": Amat, "x": x, "y": y,
         # after the first round of checks one geometry is replaced by another one with the same function space
         "regeom": draw(st.sampled_from([None, None, "range", "domain"])), "fortran_out": draw(st.booleans())}
    if backing == "roll":
        c["A"] = [[(1.0 if j == i else 0.0) - (0.6 if j == (i - 1) % nf else 0.0) for j in range(nf)] for i in range(nf)]
    if backing == "view":
        c["sel"] = sel
        idx = {"prefix": list(range(mf)), "stride": list(range(0, nf, 2)), "all": list(range(nf))}[sel]
        c["A"] = [[1.0 if j == idx[i] else 0.0 for j in range(nf)] for i in range(mf)]
    return c


def build_generic(c):
    import cuqi
    import scipy.sparse as sp
    Am = A(c["A"])
    dom, ran = gen.make_geometry(c["dom"]), gen.make_geometry(c["ran"])
    b = c["backing"]
    if b == "dense":
        return cuqi.model.LinearModel(gen.relayout(Am, c.get("layout", "plain")), range_geometry=ran, domain_geometry=dom)
    if b == "csr":
        return cuqi.model.LinearModel(sp.csr_matrix(Am), range_geometry=ran, domain_geometry=dom)
    if b == "csc":
        return cuqi.model.LinearModel(sp.csc_matrix(Am), range_geometry=ran, domain_geometry=dom)
    dshape = tuple(c["dom"]["shape"]) if "shape" in c["dom"] else (c["dom"]["fun_dim"],)
    rshape = tuple(c["ran"]["shape"]) if "shape" in c["ran"] else (c["ran"]["fun_dim"],)
    if b == "roll":
        return cuqi.model.LinearModel(lambda x: x - 0.6 * np.roll(x, 1, axis=-1), lambda y: y - 0.6 * np.roll(y, -1, axis=-1),
                                      range_geometry=ran, domain_geometry=dom)
    if b == "view":
        n = dshape[0]
        sl = {"prefix": slice(0, rshape[0]), "stride": slice(0, n, 2), "all": slice(0, n)}[c["sel"]]

        def vfwd(X):
            return np.asarray(X)[sl]          # a view of the caller's array, no copy

        def vadj(Y):
            out = np.zeros(n)
            out[sl] = np.asarray(Y)
            return out
        return cuqi.model.LinearModel(vfwd, vadj, range_geometry=ran, domain_geometry=dom)

    fortran_out = bool(c.get("fortran_out")) and len(rshape) == 2

    def fwd(X):
        out = (Am @ np.asarray(X).reshape(-1)).reshape(rshape)
        # a user function may well return a Fortran-ordered array (a transposed product, scipy.linalg.solve, ...): same values
        return np.asfortranarray(out) if fortran_out else out

    def adj(Y):
        out = (Am.T @ np.asarray(Y).reshape(-1)).reshape(dshape)
        return np.asfortranarray(out) if (fortran_out and len(dshape) == 2) else out
    return cuqi.model.LinearModel(fwd, adj, range_geometry=ran, domain_geometry=dom)


def run_generic(c, rec):
    tags = {"backing": "matrix" if c["backing"] != "func" else "func",
            "dom": c["dom"]["kind"], "ran": c["ran"]["kind"],
            "dom_identity": gen.geom_is_identity_like(c["dom"]), "ran_identity": gen.geom_is_identity_like(c["ran"])}
    model = must(lambda: build_generic(c), "constructing LinearModel")
    tags["view"] = c["backing"] == "view"
    check_model(model, c["x"] * 2, c["y"] * 2, rec, tags, "LinearModel")
    which = c.get("regeom")
    spec = c["ran"] if which == "range" else c["dom"]
    if which and "fun_dim" in spec:
        # replace one geometry by another with the same function space (the model object has been used, .T has been taken):
        # every relation must hold again for the model as it is now
        alt = {"kind": "discrete" if spec["kind"] != "discrete" else "cont1d", "fun_dim": spec["fun_dim"], "x0": 0.3, "h": 0.7}
        setattr(model, "range_geometry" if which == "range" else "domain_geometry", gen.make_geometry(alt))
        tags2 = dict(tags, regeom=which)
        tags2["ran" if which == "range" else "dom"] = alt["kind"]
        tags2["ran_identity" if which == "range" else "dom_identity"] = True
        rec.begin(dict(c, _after_regeom=True))
        check_model(model, c["x"] * 2, c["y"] * 2, rec, tags2, "LinearModel (after a geometry was re-assigned)")


# ----------------------------------------------------------------------------- Deconvolution1D

BC1 = ["zero", "periodic", "Mirror", "Reflect", "Nearest"]


@st.composite
def deconv1d_cases(draw, tier="quick"):
    dim = draw(st.integers(4, 14 if tier == "quick" else 28))
    legacy = draw(st.sampled_from([False, False, False, True]))
    if legacy:
        dim = dim + dim % 2
        psf = draw(st.sampled_from(["gauss", "sinc", "vonMises", "array"]))
        c = {"dim": dim, "legacy": True, "PSF": psf, "PSF_param": draw(st.sampled_from([None, 3.0, 10.0])),
             "PSF_size": None, "BC": "periodic"}
        if psf == "array":
            c["PSF_array"] = draw(gen.vec(dim, 0.0, 1.0))
            c["PSF_param"] = None
        return c
    psf = draw(st.sampled_from(["gauss", "moffat", "defocus", "array"]))
    c = {"dim": dim, "legacy": False, "PSF": psf, "PSF_param": draw(st.sampled_from([None, 0.8, 2.0, 5.0])),
         "PSF_size": draw(st.one_of(st.none(), st.integers(2, dim))), "BC": draw(st.sampled_from(BC1))}
    if psf == "array":
        k = draw(st.integers(1, dim))
        c["PSF_array"] = draw(gen.vec(k, 0.0, 1.0))
    return c


def build_deconv1d(c):
    import cuqi
    PSF = A(c["PSF_array"]) if c["PSF"] == "array" else c["PSF"]
    kw = dict(dim=c["dim"], PSF=PSF, PSF_param=c["PSF_param"], BC=c["BC"], phantom="gauss", use_legacy=c["legacy"])
    if c["PSF_size"] is not None:
        kw["PSF_size"] = c["PSF_size"]
    np.random.seed(0)
    return cuqi.testproblem.Deconvolution1D(**kw)


def run_deconv1d(c, rec):
    tags = {"problem": "Deconvolution1D", "legacy": c["legacy"], "PSF": c["PSF"], "BC": c["BC"].lower()}
    tp = must(lambda: build_deconv1d(c), "constructing Deconvolution1D")
    x = np.cos(np.arange(c["dim"]) * 1.3 + 0.2)
    y = np.sin(np.arange(c["dim"]) * 0.7 + 1.0)
    check_model(tp.model, x, y, rec, tags, "Deconvolution1D.model")


# ----------------------------------------------------------------------------- Deconvolution2D

BC2 = ["zero", "periodic", "Neumann", "Mirror", "Nearest"]


@st.composite
def deconv2d_cases(draw, tier="quick"):
    dim = draw(st.integers(4, 7 if tier == "quick" else 10))
    psf = draw(st.sampled_from(["gauss", "moffat", "defocus", "array"]))
    # odd sizes / zero+periodic drawn more often: the other classes fall under recorded findings
    size = draw(st.sampled_from([s for s in (3, 5, 3, 5, 3, 5, 2, 4, 6) if s <= max(dim, 3)]))
    c = {"dim": dim, "PSF": psf, "PSF_param": draw(st.sampled_from([0.7, 1.5, 2.56])), "PSF_size": size,
         "BC": draw(st.sampled_from(["zero", "periodic"] * 4 + BC2))}
    if psf == "array":
        c["PSF_array"] = draw(gen.mat(size, size, 0.0, 1.0))
    return c


def build_deconv2d(c):
    import cuqi
    PSF = A(c["PSF_array"]) if c["PSF"] == "array" else c["PSF"]
    ph = np.outer(np.cos(np.arange(c["dim"])), np.sin(1 + np.arange(c["dim"])))
    np.random.seed(0)
    return cuqi.testproblem.Deconvolution2D(dim=c["dim"], PSF=PSF, PSF_param=c["PSF_param"], PSF_size=c["PSF_size"],
                                            BC=c["BC"], phantom=ph)


def run_deconv2d(c, rec):
    tags = {"problem": "Deconvolution2D", "PSF": c["PSF"], "BC": c["BC"].lower(),
            "psf_parity": "even" if c["PSF_size"] % 2 == 0 else "odd"}
    tp = must(lambda: build_deconv2d(c), "constructing Deconvolution2D")
    n = c["dim"] ** 2
    x = np.cos(np.arange(n) * 1.3 + 0.2)
    y = np.sin(np.arange(n) * 0.7 + 1.0)
    check_model(tp.model, x, y, rec, tags, "Deconvolution2D.model")


# ----------------------------------------------------------------------------- Abel1D

@st.composite
def abel_cases(draw, tier="quick"):
    dim = draw(st.integers(3, 12 if tier == "quick" else 24))
    ft = draw(st.sampled_from([None, None, None, "KL", "Step"]))
    c = {"dim": dim, "field_type": ft, "endpoint": draw(st.sampled_from([1.0, 2.5]))}
    if ft == "KL":
        c["field_params"] = {"num_modes": draw(st.integers(1, dim))}
    elif ft == "Step":
        c["field_params"] = {"n_steps": draw(st.integers(1, dim))}
    return c


def run_abel(c, rec):
    import cuqi
    tags = {"problem": "Abel1D", "field_type": str(c["field_type"])}
    np.random.seed(0)
    tp = must(lambda: cuqi.testproblem.Abel1D(dim=c["dim"], endpoint=c["endpoint"], field_type=c["field_type"],
                                              field_params=c.get("field_params")), "constructing Abel1D")
    n, m = tp.model.domain_dim, tp.model.range_dim
    x = np.cos(np.arange(n) * 1.3 + 0.2)
    y = np.sin(np.arange(m) * 0.7 + 1.0)
    check_model(tp.model, x, y, rec, tags, "Abel1D.model")


SUBCHECKS = [
    SubCheck("C07/generic", run_generic, strategy=generic_cases, n={"quick": 800, "thorough": 20000},
             shards={"quick": 4, "thorough": 16}),
    SubCheck("C07/deconv1d", run_deconv1d, strategy=deconv1d_cases, n={"quick": 300, "thorough": 6000},
             shards={"quick": 4, "thorough": 16}),
    SubCheck("C07/deconv2d", run_deconv2d, strategy=deconv2d_cases, n={"quick": 240, "thorough": 4000},
             shards={"quick": 4, "thorough": 16}),
    SubCheck("C07/abel1d", run_abel, strategy=abel_cases, n={"quick": 200, "thorough": 3000},
             shards={"quick": 2, "thorough": 8}),
]
