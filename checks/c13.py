"""C13 - geometry maps are mutually inverse and act column-wise on batches."""
from fractions import Fraction

import numpy as np
from hypothesis import strategies as st

from vlib.core import SubCheck, Violation, require, close, maxdiff, A, must, refuses
from vlib import gen

PROPERTY = "C13"
RULE = ("Hypothesis draws a geometry spec (Continuous1D/2D, Image2D C/F, visual-only, Discrete, default 1D/2D, "
        "MappedGeometry with/without inverse over a base geometry, KLExpansion with any number of modes, StepExpansion "
        "with any grid offset/spacing/size, number of steps and projection), parameter vectors, function values and "
        "batch sizes. Non-trivial: the map is not the identity or a batch of N>1 columns is converted; distinct = "
        "distinct generated case.")
ASSUMPTIONS = ["round trips through the sine transform compared with tolerance 1e-9 relative",
               "step membership is compared with the documented intervals only for nodes that are not within 1e-9*L of an "
               "interval boundary; boundary nodes must still be covered exactly once by an adjacent step"]


def arr(x):
    return np.asarray(x, dtype=float)


def fun_values(spec, g):
    """admissible function values for `spec` built from raw generated numbers g (shape fun_shape [+N])."""
    if spec["kind"] == "mapped":
        return gen.MAPS[spec["map"]][0](g)
    return g


@st.composite
def geom_cases(draw, tier="quick"):
    spec = draw(gen.any_geom_spec(max_dim=6 if tier == "quick" else 12))
    pd = gen.geom_par_dim(spec)
    fs = gen.geom_fun_shape(spec)
    N = draw(st.sampled_from([1, 2, 3, 5]))
    P = draw(gen.mat(N, pd, -2, 2))          # N parameter vectors
    Fv = draw(gen.mat(N, int(np.prod(fs)), -2, 2))  # N raw function-value vectors
    return {"geom": spec, "P": P, "F": Fv, "regrid": draw(st.sampled_from([0, 1, 3, 7])), "thin": [draw(st.integers(0, 2)), draw(st.integers(1, 3))],
            # memory layout of the arrays handed to the maps (an image stored in Fortran order, a transposed view, a read-only array ...)
            "layout": draw(st.sampled_from(["plain", "fortran", "fortran", "strided", "reversed", "readonly"]))}


def is_identity_map(spec):
    return spec["kind"] in ("default", "cont1d", "discrete", "image_vis")


def has_fun2par(spec):
    return not (spec["kind"] == "mapped" and not spec["imap"])


def run_roundtrip(c, rec):
    spec = c["geom"]
    tags = {"geom": gen.geom_kind(spec).split("(")[0], "detail": gen.geom_kind(spec)}
    if spec["kind"] in ("cont2d",) or (spec["kind"] == "mapped" and spec["base"]["kind"] == "cont2d"):
        shp = spec["shape"] if spec["kind"] == "cont2d" else spec["base"]["shape"]
        tags["degenerate_axis"] = bool(min(shp) == 1)
    if rec.classify(tags, not is_identity_map(spec)):
        return
    G = must(lambda: gen.make_geometry(spec), "constructing geometry")
    pd = gen.geom_par_dim(spec)
    fs = gen.geom_fun_shape(spec)
    p = arr(c["P"][0])
    # reported shapes
    require(tuple(G.par_shape) == (pd,), "par_shape is not (number of parameters,)", got=G.par_shape, want=pd)
    require(G.par_dim == pd, "par_dim mismatch")
    f = must(lambda: np.asarray(G.par2fun(p)), "par2fun")
    require(tuple(G.fun_shape) == tuple(f.shape), "fun_shape differs from the shape par2fun produces",
            fun_shape=G.fun_shape, produced=f.shape)
    require(G.fun_dim == f.size, "fun_dim differs from the size par2fun produces")
    require(tuple(f.shape) == fs, "par2fun output shape is not the documented function shape", got=f.shape, want=fs)
    # vectorised function form
    refused, v = refuses(lambda: np.asarray(G.fun2vec(f)))
    if not refused:
        require(v.ndim == 1 and tuple(G.funvec_shape) == tuple(v.shape),
                "funvec_shape differs from what fun2vec produces", reported=G.funvec_shape, produced=v.shape)
        require(G.funvec_dim == v.size, "funvec_dim mismatch")
        f_back = np.asarray(must(lambda: G.vec2fun(v), "vec2fun"))
        require(f_back.shape == f.shape and maxdiff(f_back, f) == 0, "vec2fun(fun2vec(f)) != f")
    # inverse
    if not has_fun2par(spec):
        refused, val = refuses(lambda: G.fun2par(f))
        require(refused, "fun2par without inverse map returned a value instead of refusing")
        return
    p_back = np.asarray(must(lambda: G.fun2par(f), "fun2par"))
    require(p_back.shape == p.shape and close(p_back, p, 1e-9), "fun2par(par2fun(p)) != p", p=p, back=p_back)
    # the same function values stored in another memory layout are the same function
    f_l = gen.relayout(f, c.get("layout", "plain"))
    p_l = np.asarray(must(lambda: G.fun2par(f_l), "fun2par on function values in another memory layout"))
    require(p_l.shape == p_back.shape and maxdiff(p_l, p_back) <= 1e-12 * (1 + np.max(np.abs(p_back))),
            f"fun2par depends on the memory layout of the function values ({c.get('layout')})", plain=p_back, other_layout=p_l)
    f_pl = np.asarray(must(lambda: G.par2fun(gen.relayout(p, c.get("layout", "plain"))), "par2fun on parameters in another memory layout"))
    require(f_pl.shape == f.shape and maxdiff(f_pl, f) <= 1e-12 * (1 + np.max(np.abs(f))), "par2fun depends on the memory layout of the parameters")
    if not refused:
        v_l = np.asarray(must(lambda: G.fun2vec(f_l), "fun2vec on function values in another memory layout"))
        require(v_l.shape == v.shape and maxdiff(v_l, v) == 0, f"fun2vec depends on the memory layout of the function values ({c.get('layout')})")
    # projection idempotence on arbitrary admissible function values
    g = fun_values(spec, arr(c["F"][0]).reshape(fs))
    Pg = np.asarray(G.par2fun(np.asarray(G.fun2par(g))))
    PPg = np.asarray(G.par2fun(np.asarray(G.fun2par(Pg))))
    require(close(PPg, Pg, 1e-9), "par2fun(fun2par(.)) is not idempotent", Pg=Pg, PPg=PPg)
    # the same geometry object given another grid (public setter) must be the geometry of that grid
    if spec["kind"] == "kl" and c.get("regrid"):   # (KL: the number of parameters does not depend on the grid)
        spec2 = dict(spec, fun_dim=spec["fun_dim"] + int(c["regrid"]))
        fresh = gen.make_geometry(spec2)
        refused, _ = refuses(lambda: setattr(G, "grid", np.array(fresh.grid, dtype=float).copy()))
        if refused:
            rec.count("grid_assignment_refused")
            return
        rec.count("regridded")
        f2 = np.asarray(must(lambda: G.par2fun(p), "par2fun after the grid was re-assigned"))
        fw = np.asarray(fresh.par2fun(p))
        require(f2.shape == fw.shape and close(f2, fw, 1e-12), "after assigning a new grid par2fun is not that of a geometry built on the new grid",
                got=f2, want=fw)
        require(tuple(G.fun_shape) == tuple(f2.shape), "fun_shape not updated with the grid")
        pb = np.asarray(must(lambda: G.fun2par(f2), "fun2par after the grid was re-assigned"))
        require(close(pb, p, 1e-9), "after assigning a new grid fun2par(par2fun(p)) != p", p=p, back=pb,
                nodes_before=spec["fun_dim"], nodes_after=spec2["fun_dim"])


def run_batch(c, rec):
    spec = c["geom"]
    N = len(c["P"])
    tags = {"geom": gen.geom_kind(spec).split("(")[0], "N": N}
    if spec["kind"] in ("cont2d",) or (spec["kind"] == "mapped" and spec["base"]["kind"] == "cont2d"):
        shp = spec["shape"] if spec["kind"] == "cont2d" else spec["base"]["shape"]
        tags["degenerate_axis"] = bool(min(shp) == 1)
    if rec.classify(tags, N > 1 or not is_identity_map(spec)):
        return
    if spec["kind"] == "mapped" and spec["map"] in gen.COUPLED_MAPS:
        # a map written for one function couples its values: handing it a matrix of columns is not column-wise by construction
        # (what must be column-wise for such geometries are the sample-collection conversions, C13/conversions)
        rec.count("coupled_map_not_batched")
        return
    G = gen.make_geometry(spec)
    fs = gen.geom_fun_shape(spec)
    P = arr(c["P"]).T  # (par_dim, N)
    cols = [np.asarray(G.par2fun(P[:, i].copy())) for i in range(N)]
    want = np.stack(cols, axis=-1)
    got = np.asarray(must(lambda: G.par2fun(gen.relayout(P, c.get("layout", "plain"))), "par2fun on a batch"))
    require(got.size == want.size and close(got.reshape(want.shape), want, 1e-10),
            "par2fun on a matrix of columns differs from column-by-column application", got=got, want=want)
    if N > 1:
        require(got.shape == want.shape, "par2fun batch output has wrong shape", got=got.shape, want=want.shape)
    base_kind = spec["base"]["kind"] if spec["kind"] == "mapped" else spec["kind"]
    if not has_fun2par(spec) or base_kind in ("image", "default2d"):
        # Image2D.fun2par documents single images only; a stack of images is not a matrix of column vectors
        return
    Fb = np.stack([fun_values(spec, arr(c["F"][i]).reshape(fs)) for i in range(N)], axis=-1)
    pcols = [np.asarray(G.fun2par(Fb[..., i].copy())) for i in range(N)]
    wantp = np.stack(pcols, axis=-1)
    gotp = np.asarray(must(lambda: G.fun2par(gen.relayout(Fb, c.get("layout", "plain"))), "fun2par on a batch"))
    require(gotp.size == wantp.size and close(gotp.reshape(wantp.shape), wantp, 1e-10),
            "fun2par on a batch differs from column-by-column application", got=gotp, want=wantp)
    if N > 1:
        require(gotp.shape == wantp.shape, "fun2par batch output has wrong shape", got=gotp.shape, want=wantp.shape)


# ----------------------------------------------------------------------------- step expansion grids

@st.composite
def step_cases(draw, tier="quick"):
    n = draw(st.integers(2, 16 if tier == "quick" else 60))
    n_steps = draw(st.integers(1, n))
    mode = draw(st.sampled_from(["rational", "float", "linspace"]))
    if mode == "rational":
        # offsets up to 1e6 times the spacing (time stamps, coordinates far from the origin)
        x0 = [draw(st.one_of(st.integers(-30, 30), st.integers(-30, 30).map(lambda v: v * 10 ** 4), st.integers(10 ** 5, 10 ** 6))),
              draw(st.sampled_from([1, 2, 3, 5, 7, 10]))]
        h = [draw(st.integers(1, 30)), draw(st.sampled_from([1, 2, 3, 5, 7, 10, 100]))]
        # the axis in other units (femtoseconds in SI: 1e-15; micrometres: 1e-6; ...): the map may not depend on the unit
        return {"mode": mode, "n": n, "n_steps": n_steps, "x0": x0, "h": h, "unit_pow": draw(st.sampled_from([0, 0, -6, -12, -15, 6]))}
    if mode == "float":
        return {"mode": mode, "n": n, "n_steps": n_steps, "x0": draw(gen.fl(-10, 10)), "h": draw(gen.logpos(-3, 2))}
    return {"mode": mode, "n": n, "n_steps": n_steps, "a": draw(gen.fl(-10, 10)), "len": draw(gen.logpos(-3, 2))}


def step_grid(c):
    n = c["n"]
    if c["mode"] == "rational":
        x0 = Fraction(*c["x0"])
        h = Fraction(*c["h"])
        u = Fraction(10) ** int(c.get("unit_pow", 0))
        return np.array([float((x0 + h * k) * u) for k in range(n)])
    if c["mode"] == "float":
        return c["x0"] + c["h"] * np.arange(n)
    return np.linspace(c["a"], c["a"] + c["len"], n)


def run_step(c, rec):
    import cuqi
    tags = {"mode": c["mode"], "unit_pow": c.get("unit_pow", 0)}
    if rec.classify(tags, c["n_steps"] > 1):
        return
    grid = step_grid(c)
    n, k = c["n"], c["n_steps"]
    refused, G = refuses(lambda: cuqi.geometry.StepExpansion(grid, n_steps=k))
    if refused:
        # the constructor may reject grids it does not regard as regular: a refusal, not a wrong map
        rec.count("refused_grid")
        return
    cover = np.zeros(n)
    owner = -np.ones(n, dtype=int)
    for i in range(k):
        e = np.zeros(k)
        e[i] = 1.0
        fi = np.asarray(G.par2fun(e))
        require(set(np.unique(fi)).issubset({0.0, 1.0}), "par2fun(e_i) is not a 0/1 indicator", fi=fi)
        cover += fi
        owner[fi == 1.0] = i
    require(np.all(cover == 1.0),
            "a grid node is covered by no step or by several steps (sum_i par2fun(e_i) != 1)", cover=cover, grid=grid,
            n_steps=k)
    require(np.all(np.diff(owner) >= 0), "steps are not contiguous/ordered along the grid", owner=owner)
    # documented membership for nodes clear of the interval boundaries
    x0, L = grid[0], grid[-1] - grid[0]
    for j, x in enumerate(grid):
        if c["mode"] == "rational":
            # the grid is x0 + h*j with exact rationals: node j sits at j*k/(n-1) steps, exactly. A node exactly on an interval
            # boundary belongs to the interval on its left (documented intervals (a_i, a_{i+1}]); no tolerance is needed
            tq = Fraction(j * k, n - 1)
            want = {max(0, int(tq) - 1)} if tq.denominator == 1 else {min(k - 1, int(tq))}
            require(int(owner[j]) in want, "node assigned to a step other than the documented interval (x0 + i L/n_steps, x0 + (i+1) L/n_steps]",
                    node=j, x=x, owner=int(owner[j]), want=sorted(want), position_in_steps=str(tq))
            continue
        t = (x - x0) / L * k  # position in units of steps
        nearest = round(t)
        if abs(t - nearest) <= 1e-9 * k:
            want = {max(0, min(k - 1, nearest - 1)), max(0, min(k - 1, nearest))}
        else:
            want = {min(k - 1, max(0, int(np.ceil(t)) - 1))}
        require(int(owner[j]) in want, "node assigned to a step other than the documented interval",
                node=j, x=x, owner=int(owner[j]), want=sorted(want))
    require(np.allclose(np.asarray(G.par2fun(np.ones(k))), 1.0), "constant parameters do not give the constant function")
    # the documented projections of a general function, with the arguments given in their documented order by position
    gfun = np.cos(1.0 + 0.9 * np.arange(n)) * (1.0 + 0.1 * np.arange(n))
    for proj, red in (("mean", np.mean), ("max", np.max), ("min", np.min)):
        refused, Gp = refuses(lambda: cuqi.geometry.StepExpansion(grid, k, proj))
        if refused:
            rec.count("positional_construction_refused")
            continue
        gotp = np.asarray(Gp.fun2par(gfun.copy()), dtype=float)
        wantp = np.array([red(gfun[owner == i]) for i in range(k)])
        require(gotp.shape == wantp.shape and close(gotp, wantp, 1e-12), f"StepExpansion(grid, n_steps, '{proj}') (arguments by position, documented order): "
                f"fun2par is not the {proj} of the function over each step", got=gotp, want=wantp)
    p = 1.0 + np.arange(k)
    back = np.asarray(G.fun2par(np.asarray(G.par2fun(p))))
    require(back.shape == p.shape and close(back, p, 1e-12), "fun2par(par2fun(p)) != p on this grid (a step owns no node?)",
            back=back, grid=grid, n_steps=k)


# ----------------------------------------------------------------------------- Samples / CUQIarray conversions

def run_conv(c, rec):
    import cuqi
    spec = c["geom"]
    N = len(c["P"])
    tags = {"geom": gen.geom_kind(spec).split("(")[0], "N": N}
    if spec["kind"] in ("cont2d",) or (spec["kind"] == "mapped" and spec["base"]["kind"] == "cont2d"):
        shp = spec["shape"] if spec["kind"] == "cont2d" else spec["base"]["shape"]
        tags["degenerate_axis"] = bool(min(shp) == 1)
    if rec.classify(tags, not is_identity_map(spec) or N > 1):
        return
    G = gen.make_geometry(spec)
    fs = gen.geom_fun_shape(spec)
    P = arr(c["P"]).T
    S = cuqi.samples.Samples(P.copy(), geometry=G)
    Fs = must(lambda: S.funvals, "Samples.funvals")
    require(Fs.is_par is False and Fs.Ns == N, "funvals: flags/Ns wrong")
    require(Fs.geometry == G, "funvals: geometry not preserved")
    for i in range(N):
        want = np.asarray(G.par2fun(P[:, i].copy()))
        got = np.asarray(Fs.samples[..., i])
        require(got.shape == want.shape and close(got, want, 1e-12), "Samples.funvals differs from per-sample par2fun",
                i=i, got=got, want=want)
    require(maxdiff(S.samples, P) == 0, "source samples altered by conversion")
    require(S.parameters is S and S.vector is S, "parameters/vector of parameter samples should be the object itself")
    # vector form of function values
    refused, Vs = refuses(lambda: Fs.vector)
    if not refused:
        require(Vs.is_vec and not Vs.is_par, "vector: flags wrong")
        for i in range(N):
            want = np.asarray(G.fun2vec(np.asarray(Fs.samples[..., i]))) if not Fs.is_vec else np.asarray(Fs.samples[..., i])
            require(close(np.asarray(Vs.samples[..., i]), want, 1e-12), "Samples.vector differs from per-sample fun2vec")
        F2 = must(lambda: Vs.funvals, "vector.funvals")
        for i in range(N):
            require(close(np.asarray(F2.samples[..., i]).reshape(fs), np.asarray(Fs.samples[..., i]).reshape(fs), 1e-12),
                    "funvals -> vector -> funvals is not lossless")
    # conversions after the object was used: a thinned copy and a re-assigned sample array convert their own columns
    Nb, Nt = c.get("thin", [0, 1])
    if N - Nb >= 1 and (Nb, Nt) != (0, 1):
        St = must(lambda: S.burnthin(Nb, Nt), "burnthin")
        Ft = must(lambda: St.funvals, "funvals of a thinned copy")
        cols = list(range(N))[Nb::Nt]
        require(Ft.Ns == len(cols), "funvals of a thinned copy has the wrong number of samples", got=Ft.Ns, want=len(cols))
        for q, i in enumerate(cols):
            want = np.asarray(G.par2fun(P[:, i].copy()))
            require(close(np.asarray(Ft.samples[..., q]), want, 1e-12),
                    "funvals of a thinned copy (taken after funvals of the full chain) are not the function values of its own samples", column=q)
    if N > 1:
        S.samples = P[:, ::-1].copy()
        Fr = must(lambda: S.funvals, "funvals after the sample array was re-assigned")
        for i in range(N):
            want = np.asarray(G.par2fun(P[:, N - 1 - i].copy()))
            require(close(np.asarray(Fr.samples[..., i]), want, 1e-12),
                    "funvals after assigning a new sample array are not the function values of the new samples", column=i)
        S.samples = P.copy()
    # an integer-typed sample array (counts, integer draws): conversions act on its values, nothing is truncated
    Pint = np.round(2 * P).astype(int)
    Si = cuqi.samples.Samples(Pint.copy(), geometry=G)
    refused_i, Fi = refuses(lambda: Si.funvals)
    if not refused_i:
        for i in range(N):
            want = np.asarray(G.par2fun(Pint[:, i].astype(float)), dtype=float)
            got = np.asarray(Fi.samples[..., i], dtype=float)
            require(got.shape == want.shape and close(got, want, 1e-12),
                    "funvals of an integer-typed sample array are not the function values of those numbers (truncated?)", i=i, got=got, want=want)
    if has_fun2par(spec) and spec["kind"] != "mapped":
        # function-value samples built directly from an integer-typed array: parameters are fun2par of those numbers
        Fint = np.round(2 * np.asarray(Fs.samples, dtype=float)).astype(int) if Fs.samples is not None and hasattr(Fs.samples, "shape") else None
        if Fint is not None:
            Sfi = cuqi.samples.Samples(Fint.copy(), geometry=G, is_par=False, is_vec=Fs.is_vec)
            refused_p, Pfi = refuses(lambda: Sfi.parameters)
            if not refused_p:
                for i in range(N):
                    r2, want = refuses(lambda: np.asarray(G.fun2par(Fint[..., i].astype(float)), dtype=float))
                    if r2 or not np.all(np.isfinite(want)):
                        break
                    require(close(np.asarray(Pfi.samples[:, i], dtype=float), want, 1e-12),
                            "parameters of integer-typed function-value samples are not fun2par of those numbers (truncated?)", i=i)
    if has_fun2par(spec):
        for src in ([Fs] if refused else [Fs, Vs]):
            Pb = must(lambda: src.parameters, "Samples.parameters")
            require(Pb.is_par and Pb.is_vec and Pb.Ns == N, "parameters: flags wrong")
            require(Pb.samples.shape == P.shape and close(Pb.samples, P, 1e-9),
                    "parameters(funvals(samples)) != samples", got=Pb.samples, want=P)
    # geometry-carrying array
    p = P[:, 0].copy()
    a = cuqi.array.CUQIarray(p.copy(), is_par=True, geometry=G)
    fa = must(lambda: a.funvals, "CUQIarray.funvals")
    want = np.asarray(G.par2fun(p.copy()))
    require(np.asarray(fa).shape == want.shape and close(np.asarray(fa), want, 1e-12), "CUQIarray.funvals != par2fun")
    require(getattr(fa, "is_par", None) is False and fa.geometry == G, "CUQIarray.funvals flags/geometry wrong")
    require(a.parameters.is_par and maxdiff(np.asarray(a.parameters), p) == 0, "CUQIarray.parameters of parameters changed them")
    require(maxdiff(np.asarray(a), p) == 0, "CUQIarray altered by conversion")
    if has_fun2par(spec):
        back = must(lambda: fa.parameters, "CUQIarray.funvals.parameters")
        require(back.is_par and close(np.asarray(back), p, 1e-9), "CUQIarray funvals -> parameters is not lossless")
        require(close(np.asarray(fa.funvals), want, 0.0) or maxdiff(np.asarray(fa.funvals), want) == 0,
                "funvals of function values changed them")
        f_in = cuqi.array.CUQIarray(want.copy(), is_par=False, geometry=G)
        require(close(np.asarray(f_in.parameters), p, 1e-9), "CUQIarray(is_par=False).parameters != fun2par")


SUBCHECKS = [
    SubCheck("C13/roundtrip", run_roundtrip, strategy=geom_cases, n={"quick": 3000, "thorough": 40000},
             shards={"quick": 4, "thorough": 16}),
    SubCheck("C13/batch", run_batch, strategy=geom_cases, n={"quick": 3000, "thorough": 40000},
             shards={"quick": 4, "thorough": 16}),
    SubCheck("C13/step_grids", run_step, strategy=step_cases, n={"quick": 3000, "thorough": 100000},
             shards={"quick": 4, "thorough": 16}),
    SubCheck("C13/conversions", run_conv, strategy=geom_cases, n={"quick": 4000, "thorough": 20000},
             shards={"quick": 4, "thorough": 16}),
]
