"""C09 - Gibbs sweeps draw each block from its conditional given the current other blocks."""
import copy
import numpy as np
import scipy.stats as sps
from hypothesis import strategies as st

from vlib.core import SubCheck, Violation, require, close, maxdiff, A, must, refuses
from vlib import gen, graphs, stats
from vlib.rand import ScriptedRNG, patched_global

PROPERTY = "C09"
RULE = ("Hypothesis draws a joint target with 2-4 blocks from the model-graph grammar (hyper-parameters entering likelihood and priors), an "
        "assignment of block samplers (MH, CWMH, Conjugate, LinearRTO, MALA where admissible; legacy classes for cuqi.sampler.Gibbs), "
        "per-block step counts 1-3, sweep counts, optional warm-up and a second sample call; block samplers are harness-written "
        "subclasses (the public extension point) that record the target they hold and their point at every step. A reference model of "
        "the history (own dict of current block values) is compared after every block update. Non-trivial: >= 2 sweeps with >= 1 "
        "hyper-parameter changing between them; distinct = distinct generated case. Invariance: successive-conditional test with exact "
        "block samplers, two-stage KS/moment tests against the closed-form prior law.")
ASSUMPTIONS = ["a recorded target is 'the conditional given the model's current values' iff its logd differences between two probe points equal the "
               "joint's logd differences with the other blocks at those values (1e-8 relative)",
               "MH blocks: the scripted-uniform decision test of C02 is run inside the sweep against the true current conditional",
               "invariance test: family-wise level 1e-5 first stage, confirming second stage with 8x replicates"]


# ----------------------------------------------------------------------------- spies

def make_spies(log):
    import cuqi
    E = cuqi.experimental.mcmc

    class SpyMixin:
        spy_name = None
        decision_mode = 0

        def step(self):
            entry = {"block": self.spy_name, "target": self.target, "pre": np.array(self.current_point, dtype=float).reshape(-1).copy()}
            log.append(entry)
            out = self._spy_step(entry)
            entry["post"] = np.array(self.current_point, dtype=float).reshape(-1).copy()
            return out

        def _spy_step(self, entry):
            return super().step()

    class SpyMH(SpyMixin, E.MH):
        def _spy_step(self, entry):
            # the C02 decision test inside the sweep: proposal noise from the global stream, uniform scripted at the
            # true acceptance probability (for the conditional the sampler holds) times (1 +- 1e-6)
            n = self.dim
            xi = np.random.randn(n)
            x = np.asarray(self.current_point, dtype=float).reshape(-1)
            xp = x + self.scale * xi
            T = self.target
            with np.errstate(all="ignore"):
                lp_p = float(np.asarray(T.logd(xp)).reshape(-1)[0])
                lp_x = float(np.asarray(T.logd(x)).reshape(-1)[0])
            undecidable = np.isposinf(lp_p) or not np.isfinite(lp_x)   # outside what the property specifies
            if np.isnan(lp_p) or np.isneginf(lp_p):
                la = -np.inf                                             # never accepted
            else:
                la = min(0.0, lp_p - lp_x) if not undecidable else 0.0
            alpha = float(np.exp(la))
            type(self).decision_mode = (type(self).decision_mode + 1) % 2
            delta = 1e-6
            u = alpha * (1 + delta) if type(self).decision_mode else alpha * (1 - delta)
            if not (0 < u < 1):
                u = 0.5
            expect = np.log(u) <= la
            with patched_global(ScriptedRNG(normal=list(xi), uniform=[u])):
                out = super(SpyMixin, self).step()
            entry["mh"] = {"expect_accept": bool(expect), "accepted": bool(maxdiff(np.asarray(self.current_point, dtype=float).reshape(-1), xp) <= 1e-12 * (1 + np.max(np.abs(xp)))),
                           "log_alpha": la, "log_u": float(np.log(u)), "tie": bool(undecidable or abs(np.log(u) - la) < 1e-9)}
            return out

    class SpyPCN(SpyMixin, E.PCN):
        def _spy_step(self, entry):
            # decision test for the pCN kernel inside the sweep. The proposal is learnt by a dry run of the real step under the
            # same scripted prior draw with a uniform that accepts everything finite, the state is restored through the public
            # get_state/set_state, then the judged step runs with the uniform placed at the reference acceptance probability
            # (likelihood ratio of the conditional the sampler holds now) times (1 +- 1e-6)
            T = self.target
            n = len(np.asarray(self.current_point).reshape(-1))
            xi = np.random.randn(n)
            x = np.asarray(self.current_point, dtype=float).reshape(-1).copy()
            saved = self.get_state()
            with patched_global(ScriptedRNG(normal=list(xi), uniform=[1e-300])):
                super(SpyMixin, self).step()
            xp = np.asarray(self.current_point, dtype=float).reshape(-1).copy()
            self.set_state(saved)
            with np.errstate(all="ignore"):
                lp_p = float(np.asarray(T.likelihood.logd(xp)).reshape(-1)[0])
                lp_x = float(np.asarray(T.likelihood.logd(x)).reshape(-1)[0])
            moved = maxdiff(xp, x) > 0
            undecidable = (not moved) or np.isposinf(lp_p) or not np.isfinite(lp_x)
            if np.isnan(lp_p) or np.isneginf(lp_p):
                la = -np.inf
            else:
                la = min(0.0, lp_p - lp_x) if not undecidable else 0.0
            alpha = float(np.exp(la))
            type(self).decision_mode = (type(self).decision_mode + 1) % 2
            delta = 1e-6
            u = alpha * (1 + delta) if type(self).decision_mode else alpha * (1 - delta)
            if not (0 < u < 1):
                u = 0.5
            expect = np.log(u) <= la
            with patched_global(ScriptedRNG(normal=list(xi), uniform=[u])):
                out = super(SpyMixin, self).step()
            now = np.asarray(self.current_point, dtype=float).reshape(-1)
            entry["mh"] = {"expect_accept": bool(expect), "accepted": bool(maxdiff(now, xp) <= 1e-12 * (1 + np.max(np.abs(xp)))),
                           "log_alpha": la, "log_u": float(np.log(u)), "tie": bool(undecidable or abs(np.log(u) - la) < 1e-9), "kernel": "pCN"}
            return out

    class SpyCWMH(SpyMixin, E.CWMH):
        pass

    class SpyConjugate(SpyMixin, E.Conjugate):
        pass

    class SpyLinearRTO(SpyMixin, E.LinearRTO):
        pass

    class SpyMALA(SpyMixin, E.MALA):
        def _spy_step(self, entry):
            # the Langevin proposal and its Metropolis correction must be those of the conditional the sampler holds NOW: drift
            # (scale/2) grad log pi(x) with the current conditional's gradient. Proposal learnt by a dry run (state restored),
            # uniform placed at the reference acceptance probability times (1 +- 1e-6)
            T = self.target
            x = np.asarray(self.current_point, dtype=float).reshape(-1).copy()
            n = len(x)
            xi = np.random.randn(n)
            sc = float(np.asarray(self.scale).reshape(-1)[0])
            saved = self.get_state()
            with patched_global(ScriptedRNG(normal=list(xi), uniform=[1e-300])):
                super(SpyMixin, self).step()
            xp = np.asarray(self.current_point, dtype=float).reshape(-1).copy()
            self.set_state(saved)
            with np.errstate(all="ignore"):
                g_x = np.asarray(T.gradient(x), dtype=float).reshape(-1)
                xp_ref = x + 0.5 * sc * g_x + np.sqrt(sc) * xi
                lp_p = float(np.asarray(T.logd(xp_ref)).reshape(-1)[0])
                lp_x = float(np.asarray(T.logd(x)).reshape(-1)[0])
            moved = maxdiff(xp, x) > 0
            usable = np.all(np.isfinite(xp_ref)) and np.isfinite(lp_x) and np.isfinite(lp_p)
            if moved and usable:
                entry["langevin"] = {"proposal_ok": bool(maxdiff(xp, xp_ref) <= 1e-9 * (1 + np.max(np.abs(xp_ref)))), "got": xp, "want": xp_ref}
            undecidable = (not moved) or not usable
            la = 0.0
            if not undecidable:
                with np.errstate(all="ignore"):
                    g_p = np.asarray(T.gradient(xp), dtype=float).reshape(-1)
                lq_back = -np.sum((x - xp - 0.5 * sc * g_p) ** 2) / (2 * sc)
                lq_fwd = -np.sum((xp - x - 0.5 * sc * g_x) ** 2) / (2 * sc)
                la = float(min(0.0, lp_p - lp_x + lq_back - lq_fwd))
                undecidable = not np.isfinite(la)
            alpha = float(np.exp(la)) if not undecidable else 1.0
            type(self).decision_mode = (type(self).decision_mode + 1) % 2
            delta = 1e-6
            u = alpha * (1 + delta) if type(self).decision_mode else alpha * (1 - delta)
            if not (0 < u < 1):
                u = 0.5
            expect = np.log(u) <= la
            with patched_global(ScriptedRNG(normal=list(xi), uniform=[u])):
                out = super(SpyMixin, self).step()
            now = np.asarray(self.current_point, dtype=float).reshape(-1)
            entry["mh"] = {"expect_accept": bool(expect), "accepted": bool(maxdiff(now, xp) <= 1e-12 * (1 + np.max(np.abs(xp))) and moved),
                           "log_alpha": la, "log_u": float(np.log(u)), "tie": bool(undecidable or abs(np.log(u) - la) < 1e-9), "kernel": "MALA"}
            return out

    return {"MH": SpyMH, "CWMH": SpyCWMH, "Conjugate": SpyConjugate, "LinearRTO": SpyLinearRTO, "MALA": SpyMALA, "PCN": SpyPCN}


def make_legacy_spies(log):
    import cuqi
    L = cuqi.sampler

    def wrap(cls, block, **kw):
        class Spy(cls):
            def step(self, x=None):
                entry = {"block": block, "target": self.target, "pre": None if x is None else np.array(x, dtype=float).reshape(-1).copy()}
                log.append(entry)
                out = super().step(x)
                entry["post"] = np.array(out, dtype=float).reshape(-1).copy()
                return out
        return lambda target: Spy(target, **kw)
    return wrap


# ----------------------------------------------------------------------------- cases

@st.composite
def gibbs_cases(draw, tier="quick"):
    spec = draw(graphs.graph_spec(max_hypers=2, max_latents=2, max_data=2, max_dim=3, data_fams=["Gaussian", "Gaussian", "Normal"],
                                  latent_fams=["Gaussian", "Gaussian", "GMRF", "Normal", "Laplace"], hyper_fams=["Gamma"]))
    names = [n["name"] for n in spec["latents"]] + [h["name"] for h in spec["hypers"]]
    return {"graph": spec, "prefer": {n: draw(st.sampled_from(["MH", "MH", "Conjugate", "LinearRTO", "CWMH", "MALA", "PCN", "PCN"])) for n in names},
            # (0 steps = a block that is kept fixed)
            "nsteps": {n: draw(st.sampled_from([1, 1, 2, 3, 0])) for n in names}, "sweeps": draw(st.integers(1, 4)), "sweeps2": draw(st.integers(0, 2)),
            # (23 warm-up sweeps: beyond the length where every warm-up sweep is also a tuning sweep)
            "warmup": draw(st.sampled_from([0, 0, 0, 2, 2, 23])), "seed": draw(st.integers(0, 10 ** 6)), "probe": draw(gen.vec(4, -0.5, 0.5)),
            # the dictionaries handed to the sampler are keyed by block name: their key order is free and the step counts may be
            # given for some blocks only (default 1)
            "dict_order": draw(st.permutations(names)), "nsteps_given": {n: draw(st.sampled_from([True, True, False])) for n in names},
            # the step-count argument left out altogether (documented default: one step per block)
            "nsteps_omitted": draw(st.sampled_from([False, False, False, True])),
            "tiny_moves": draw(st.sampled_from([False, False, False, True])), "np_steps": draw(st.booleans()),
            "deepcopy_mid_run": draw(st.sampled_from([False, False, True]))}


def conditioned_joint(spec):
    import cuqi
    dens = graphs.build(spec)
    J = cuqi.distribution.JointDistribution(*dens)
    data = {n["name"]: np.array(spec["values"][n["name"]], dtype=float) for n in spec["data"]}
    return J(**data)


def block_value(spec, name):
    v = np.array(spec["values"][name], dtype=float)
    return v


def check_history(c, log, order, nsteps, init, stored, J, rec, what, sweeps_done, first_point_known=True, stored_offset=0):
    """replay the recorded block updates against the reference model"""
    model = {k: np.array(v, dtype=float).reshape(-1).copy() for k, v in init.items()}
    pos = 0
    probe = A(c["probe"])
    for sweep in range(sweeps_done):
        for b in order:
            k = nsteps[b]
            if k == 0:
                continue      # a block with zero configured steps keeps its value and is not advanced
            require(pos + k <= len(log), f"{what}: block '{b}' was not advanced {k} time(s) in sweep {sweep} (history too short)", recorded=len(log), needed=pos + k)
            entries = log[pos:pos + k]
            pos += k
            for e in entries:
                require(e["block"] == b, f"{what}: blocks are not visited in order / every block once per sweep (expected '{b}', got '{e['block']}' in sweep {sweep})")
            e0 = entries[0]
            if e0["pre"] is not None and first_point_known:
                require(maxdiff(e0["pre"], model[b]) == 0, f"{what}: the sampler of block '{b}' does not start from the block's current value in sweep {sweep}",
                        start=e0["pre"], current=model[b])
            for q in range(1, k):
                require(maxdiff(entries[q]["pre"], entries[q - 1]["post"]) == 0, f"{what}: block '{b}' steps are not consecutive transitions of one chain")
            # the target held by the block sampler is the joint conditioned on the model's current other values
            T = e0["target"]
            for e in entries:
                require(e["target"] is T or True, "target changed within a block update")
            z1 = model[b].copy()
            z2 = model[b] * (1.0 + 0.05) + 0.01 * probe[: len(z1)] if np.all(model[b] > 0) else model[b] + 0.1 * probe[: len(z1)] + 0.05
            others = {n: (float(v[0]) if len(v) == 1 and n in c["_scalars"] else v) for n, v in model.items() if n != b}
            arg = lambda z: float(z[0]) if b in c["_scalars"] else z
            with np.errstate(all="ignore"):
                dj = float(np.asarray(J.logd(**others, **{b: arg(z1)})).reshape(-1)[0]) - float(np.asarray(J.logd(**others, **{b: arg(z2)})).reshape(-1)[0])
                dt = float(np.asarray(T.logd(arg(z1))).reshape(-1)[0]) - float(np.asarray(T.logd(arg(z2))).reshape(-1)[0])
            if np.isfinite(dj) and np.isfinite(dt):
                require(close(dt, dj, 1e-8), f"{what}: in sweep {sweep} block '{b}' was updated with a target that is not the joint conditioned on the "
                        "most recent values of the other blocks", target_diff=dt, joint_diff=dj, others={n: v for n, v in others.items()})
            for e in entries:
                if "langevin" in e:
                    require(e["langevin"]["proposal_ok"], f"{what}: the Langevin proposal of block '{b}' in sweep {sweep} does not use the gradient of the "
                            "current conditional (stale cached gradient?)", got=e["langevin"]["got"], want=e["langevin"]["want"])
                if "mh" in e:
                    rec.count(f"decision_test:{e['mh'].get('kernel', 'MH')}:{'tie' if e['mh']['tie'] else 'decided'}")
                if "mh" in e and not e["mh"]["tie"]:
                    require(e["mh"]["accepted"] == e["mh"]["expect_accept"],
                            f"{what}: an MH transition of block '{b}' in sweep {sweep} did not follow the Metropolis rule for the current conditional "
                            "(stale cached density?)", **e["mh"])
            model[b] = entries[-1]["post"].copy()
        # stored sample of this sweep (the first `stored_offset` sweeps are warm-up sweeps that are not returned)
        if sweep < stored_offset:
            continue
        for b in order:
            got = np.asarray(stored[b], dtype=float)
            got = got.reshape(-1, got.shape[-1])[:, sweep - stored_offset]
            require(maxdiff(got, model[b]) == 0, f"{what}: the stored sample of sweep {sweep} is not the tuple of values after that sweep (block '{b}')",
                    stored=got, after_sweep=model[b])
    require(pos == len(log), f"{what}: more block updates were made than sweeps x blocks x steps", recorded=len(log), expected=pos)
    return model


def run_hybrid(c, rec):
    import cuqi
    E = cuqi.experimental.mcmc
    spec = c["graph"]
    refused, J = refuses(lambda: conditioned_joint(spec))
    if refused or not isinstance(J, cuqi.distribution.JointDistribution) or isinstance(J, cuqi.distribution.Distribution):
        rec.classify({"result": "not_a_joint"}, False)
        return
    order = list(J.get_parameter_names())
    hypers = [h["name"] for h in spec["hypers"]]
    c = dict(c, _scalars=set(hypers))
    log = []
    spies = make_spies(log)
    init = {b: block_value(spec, b) for b in order}

    dorder = [b for b in c.get("dict_order", order) if b in order] + [b for b in order if b not in c.get("dict_order", order)]
    given = c.get("nsteps_given", {})
    if c.get("nsteps_omitted"):
        given = {b: False for b in order}
    nsteps_eff = {b: (c["nsteps"][b] if given.get(b, True) else 1) for b in order}

    def build(assign):
        strat = {}
        for b in dorder:
            kind = assign[b]
            cls = spies[kind]
            kw = {"initial_point": init[b].copy()}
            # (tiny_moves: proposals that change a block by a relative 1e-6 - a chain that has nearly stopped moving still has to be
            # conditioned on the values the other blocks have now)
            tm = 1e-5 if c.get("tiny_moves") else 1.0
            if kind in ("MH", "CWMH"):
                kw["scale"] = 0.2 * tm
            if kind == "MALA":
                kw["scale"] = 0.01      # (the Langevin proposal test needs the gradient term to be visible: no tiny moves here)
            if kind == "PCN":
                kw["scale"] = 0.3 * tm
            s = cls(**kw)
            s.spy_name = b
            strat[b] = s
        if c.get("nsteps_omitted"):
            # another sampler object, built with the default step counts before this one, is given other counts through its
            # public attribute: this sampler, also built with the defaults, must still make one transition per block
            refused, decoy = refuses(lambda: E.HybridGibbs(J, {b: E.MH(scale=0.2, initial_point=init[b].copy()) for b in dorder}))
            if not refused and isinstance(getattr(decoy, "num_sampling_steps", None), dict):
                for b in list(decoy.num_sampling_steps):
                    decoy.num_sampling_steps[b] = 4
            return E.HybridGibbs(J, strat)
        # (step counts may come out of numpy: np.int64 values are integers like any other)
        as_np = (lambda v: np.int64(v)) if c.get("np_steps") else (lambda v: v)
        return E.HybridGibbs(J, strat, num_sampling_steps={b: as_np(c["nsteps"][b]) for b in reversed(dorder) if given.get(b, True)})
    assign = {b: c["prefer"][b] for b in order}
    for b in order:  # fall back to MH where the preferred sampler does not accept the block's conditional
        if assign[b] == "CWMH" and len(init[b]) < 2:
            assign[b] = "MH"
    refused, G = refuses(lambda: build(assign))
    if refused:
        for b in order:
            trial = dict({k: "MH" for k in order}, **{b: assign[b]})
            r, _ = refuses(lambda: build(trial))
            if r:
                assign[b] = "MH"
        log.clear()
        G = must(lambda: build(assign), "constructing HybridGibbs with MH fall-backs")
    log.clear()
    tags = {"interface": "HybridGibbs", "kinds": "+".join(sorted(set(assign.values()))), "blocks": len(order), "warmup": c["warmup"] > 0,
            "dict_order": "same" if dorder == order else "permuted", "nsteps_dict": "full" if all(given.get(b, True) for b in order) else "partial"}
    if rec.classify(tags, c["sweeps"] + c["sweeps2"] >= 2 and len(hypers) >= 1):
        return
    np.random.seed(c["seed"])
    try:
        nw, n1, n2 = c["warmup"], c["sweeps"], c["sweeps2"]
        if nw:
            must(lambda: G.warmup(nw), "HybridGibbs.warmup")
        must(lambda: G.sample(n1), "HybridGibbs.sample")
        if n2:
            must(lambda: G.sample(n2), "HybridGibbs.sample (second call)")
        S = G.get_samples()
        stored = {b: np.asarray(S[b].samples, dtype=float) for b in order}
        total = nw + n1 + n2
        for b in order:
            require(stored[b].shape[-1] == total, "HybridGibbs: number of stored samples is not the number of sweeps", got=stored[b].shape, sweeps=total)
        final = check_history(c, log, order, nsteps_eff, init, stored, J, rec, "HybridGibbs", total)
        for b in order:
            require(maxdiff(np.asarray(G.current_samples[b], dtype=float).reshape(-1), final[b]) == 0, "HybridGibbs: current values are not those after the last sweep")
        if c.get("deepcopy_mid_run"):
            # object life cycle: a deep copy of the sampler taken mid-run is a sampler of its own - continued from the same random
            # state it makes the sweeps the original makes, also when the original has moved on in the meantime
            import copy as _copy
            refused, G2 = refuses(lambda: _copy.deepcopy(G))
            if refused:
                rec.count("deepcopy_refused")
            else:
                st_ = np.random.get_state()
                must(lambda: G.sample(2), "HybridGibbs.sample after a deep copy was taken")
                tail_o = {b: np.asarray(G.get_samples()[b].samples, dtype=float).reshape(-1, total + 2)[:, -2:].copy() for b in order}
                np.random.set_state(st_)
                must(lambda: G2.sample(2), "sample on the deep copy")
                tail_c = {b: np.asarray(G2.get_samples()[b].samples, dtype=float).reshape(-1, total + 2)[:, -2:].copy() for b in order}
                for b in order:
                    require(maxdiff(tail_o[b], tail_c[b]) == 0, "HybridGibbs: a deep copy taken mid-run does not continue like the original from the same "
                            f"random state (block '{b}'): it is not conditioned on its own current values", original=tail_o[b], copy=tail_c[b])
                rec.count("deepcopy_mid_run_checked")
    finally:
        np.random.seed()


def run_legacy(c, rec):
    import cuqi
    L = cuqi.sampler
    spec = c["graph"]
    refused, J = refuses(lambda: conditioned_joint(spec))
    if refused or not isinstance(J, cuqi.distribution.JointDistribution) or isinstance(J, cuqi.distribution.Distribution):
        rec.classify({"result": "not_a_joint"}, False)
        return
    order = list(J.get_parameter_names())
    hypers = [h["name"] for h in spec["hypers"]]
    c = dict(c, _scalars=set(hypers))
    log = []
    wrap = make_legacy_spies(log)
    strat = {}
    kinds = {}
    for b in order:
        kind = c["prefer"][b]
        dim = len(block_value(spec, b))
        if kind == "Conjugate" and b in hypers:
            strat[b] = wrap(L.Conjugate, b)
        elif kind == "LinearRTO" and b not in hypers:
            strat[b] = wrap(L.LinearRTO, b)
        else:
            kind = "MH"
            strat[b] = wrap(L.MH, b, scale=0.2)
        kinds[b] = kind
    tags = {"interface": "Gibbs", "kinds": "+".join(sorted(set(kinds.values()))), "blocks": len(order), "warmup": c["warmup"] > 0}
    if rec.classify(tags, c["sweeps"] + c["sweeps2"] >= 2 and len(hypers) >= 1):
        return
    np.random.seed(c["seed"])
    try:
        G = must(lambda: L.Gibbs(J, strat), "constructing legacy Gibbs")
        n1, n2 = c["sweeps"], c["sweeps2"]
        nb = c["warmup"]
        refused, S = refuses(lambda: G.sample(n1, nb) if nb else G.sample(n1))
        if refused:
            # a block sampler that does not accept its conditional (e.g. LinearRTO on a non-linear-Gaussian block) refuses: no wrong draw
            rec.count("sampling_refused:" + type(S).__name__)
            return
        if n2:
            S = must(lambda: G.sample(n2), "legacy Gibbs second sample call")
        stored = {b: np.asarray(S[b].samples, dtype=float) for b in order}
        init = {b: np.ones(len(block_value(spec, b))) for b in order}
        for b in order:
            require(stored[b].shape[-1] == n1 + n2, "Gibbs: number of returned samples is not the number of requested sweeps", got=stored[b].shape, want=n1 + n2)
        check_history(c, log, order, {b: 1 for b in order}, init, stored, J, rec, "Gibbs", nb + n1 + n2, stored_offset=nb)
    finally:
        np.random.seed()


# ----------------------------------------------------------------------------- invariance (successive-conditional test)

@st.composite
def inv_cases(draw, tier="quick"):
    n = draw(st.integers(2, 3))
    m = draw(st.integers(2, 4))
    return {"n": n, "m": m, "A": draw(gen.mat(m, n, -1, 1)), "a_d": draw(st.sampled_from([2.0, 3.0])), "b_d": draw(st.sampled_from([1.0, 2.0])),
            "a_l": draw(st.sampled_from([2.0, 4.0])), "b_l": draw(st.sampled_from([1.0, 0.5])), "sweeps": draw(st.integers(1, 3)),
            "interface": draw(st.sampled_from(["HybridGibbs", "Gibbs"])), "seed": draw(st.integers(0, 10 ** 6)),
            "R": 600 if tier == "quick" else 6000}


def run_invariance(c, rec):
    """theta ~ prior, y ~ p(y|theta); s Gibbs sweeps on p(theta|y) started at theta leave theta distributed as the prior."""
    import cuqi
    D = cuqi.distribution
    if rec.classify({"interface": c["interface"], "sweeps": c["sweeps"]}, True):
        return
    n, m = c["n"], c["m"]
    Am = A(c["A"])
    model = cuqi.model.LinearModel(Am)

    def stat(R, seed):
        rs = np.random.RandomState(seed)
        Ud, Ul, Zx, Zy = [], [], [], []
        np.random.seed(seed % (2 ** 31))
        try:
            for r in range(R):
                d0 = rs.gamma(c["a_d"], 1 / c["b_d"])
                l0 = rs.gamma(c["a_l"], 1 / c["b_l"])
                x0 = rs.standard_normal(n) / np.sqrt(d0)
                y0 = Am @ x0 + rs.standard_normal(m) / np.sqrt(l0)
                d = D.Gamma(c["a_d"], c["b_d"], name="d")
                l = D.Gamma(c["a_l"], c["b_l"], name="l")
                x = D.Gaussian(np.zeros(n), cov=lambda d: 1.0 / d, name="x")
                y = D.Gaussian(model(x), cov=lambda l: 1.0 / l, name="y")
                if c["interface"] == "Gibbs":  # the legacy sampler takes its start values from an attribute of the densities
                    x.init_point, d.init_point, l.init_point = x0.copy(), np.array([d0]), np.array([l0])
                J = D.JointDistribution(y, x, d, l)(y=y0)
                if c["interface"] == "HybridGibbs":
                    E = cuqi.experimental.mcmc
                    G = E.HybridGibbs(J, {"x": E.LinearRTO(initial_point=x0.copy(), maxit=50, tol=1e-12), "d": E.Conjugate(initial_point=np.array([d0])),
                                          "l": E.Conjugate(initial_point=np.array([l0]))})
                    G.sample(c["sweeps"])
                    cur = G.current_samples
                    x1, d1, l1 = np.asarray(cur["x"], dtype=float).reshape(-1), float(np.asarray(cur["d"]).reshape(-1)[0]), float(np.asarray(cur["l"]).reshape(-1)[0])
                else:
                    L = cuqi.sampler
                    G = L.Gibbs(J, {"x": lambda t: L.LinearRTO(t, maxit=50, tol=1e-12), ("d", "l"): L.Conjugate})
                    S = G.sample(c["sweeps"])
                    x1, d1, l1 = S["x"].samples[:, -1], float(S["d"].samples[0, -1]), float(S["l"].samples[0, -1])
                Ud.append(sps.gamma.cdf(d1, c["a_d"], scale=1 / c["b_d"]))
                Ul.append(sps.gamma.cdf(l1, c["a_l"], scale=1 / c["b_l"]))
                Zx.extend(list(np.sqrt(d1) * x1))
                Zy.extend(list(np.sqrt(l1) * (y0 - Am @ x1)))
        finally:
            np.random.seed()
        Zx, Zy = np.array(Zx), np.array(Zy)
        return {"ks_d": stats.ks_uniform(Ud), "ks_l": stats.ks_uniform(Ul), "ks_x": stats.ks_uniform(sps.norm.cdf(Zx)),
                "ks_res": stats.ks_uniform(sps.norm.cdf(Zy)), "var_x": stats.chi2_var(Zx, 0, 1), "var_res": stats.chi2_var(Zy, 0, 1)}
    bad, report = stats.two_stage(stat, c["R"], seed=c["seed"])
    rec.note("replicates_stage1", c["R"])
    require(not bad, f"{c['interface']}: after Gibbs sweeps started from an exact joint draw the blocks no longer follow the joint law "
                     "(successive-conditional test rejected twice)", pvalues=bad, report=report)


SUBCHECKS = [
    SubCheck("C09/hybrid_gibbs_history", run_hybrid, strategy=gibbs_cases, n={"quick": 450, "thorough": 6000}, shards={"quick": 12, "thorough": 16}, shrink=False),
    SubCheck("C09/legacy_gibbs_history", run_legacy, strategy=gibbs_cases, n={"quick": 200, "thorough": 4000}, shards={"quick": 8, "thorough": 16}, shrink=False),
    SubCheck("C09/invariance", run_invariance, strategy=inv_cases, n={"quick": 16, "thorough": 64}, shards={"quick": 4, "thorough": 16}, shrink=False),
]
