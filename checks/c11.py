"""C11 - conditioning, evaluating and sampling never alter the objects they start from.

Hypothesis RuleBasedStateMachine over a pool of objects built from the C01 model-graph grammar.  Every object gets a
behavioural fingerprint at creation; after every rule every pooled object must still have exactly its fingerprint, and
every conditioned copy must report its original's name.  The history is recorded as a list of JSON-able operations so
that a failing (shrunk) history can be replayed without Hypothesis.
"""
import numpy as np
from hypothesis import strategies as st
from hypothesis.stateful import RuleBasedStateMachine, rule, invariant, initialize, precondition

from vlib.core import SubCheck, Violation, require, close, maxdiff, A, must, refuses, jsonable
from vlib import gen, graphs

PROPERTY = "C11"
RULE = ("Hypothesis stateful machine: initialise with a generated model graph (C01 grammar plus a RegularizedGaussian latent option); "
        "rules = condition (generated subset of the object's parameters, positional or keyword), logd, gradient, sample, to_likelihood, "
        "apply a model to a distribution, enable/disable nothing (explicit mutators are not rules), 200-fold re-conditioning in a loop, "
        "short MH / NUTS / Gibbs runs on conditioned copies; invariant after every step = every pooled object still has the behavioural "
        "fingerprint taken at its creation. One evaluation = one generated history; non-trivial: a history with >= 3 steps in which some "
        "object is evaluated after one of its relatives (parent, child, sibling) was operated on; distinct = distinct history.")
ASSUMPTIONS = ["fingerprint = logd (and gradient where offered) at fixed full assignments, parameter names, conditioning variables, name, dim, "
               "geometry equality, seeded samples when samplable; for models forward on a probe and argument names; cosmetic geometry labels are not part of it",
               "floats compared with tolerance 1e-12 relative (same operations repeated)"]


def fval(v):
    return np.asarray(v, dtype=float).reshape(-1)


class World:
    """plain (Hypothesis-free) interpreter of histories; also used for replay"""

    def __init__(self):
        self.pool = []      # dicts: obj, kind, fp, parent, label
        self.trace = []
        self.spec = None
        self.steps_after_relative = 0

    # ------------------------------------------------------------------ construction
    def init_graph(self, spec):
        import cuqi
        self.trace.append({"op": "init", "spec": spec})
        self.spec = spec
        self.values = {k: (float(v[0]) if k in [h["name"] for h in spec["hypers"]] else np.array(v, dtype=float)) for k, v in spec["values"].items()}
        dens = graphs.build(spec)
        if spec.get("reg_latent"):
            # replace the first Gaussian-type latent by an implicitly regularised Gaussian with the same hyper-parameter structure
            for i, d in enumerate(dens):
                if d.name == spec["latents"][0]["name"] and type(d).__name__ == "Gaussian":
                    lat = spec["latents"][0]
                    hy, lev = lat["hyper"], lat["level"]
                    cov = lev if hy is None else graphs._hy(hy, "lev_over_h", lev)
                    dens[i] = cuqi.implicitprior.RegularizedGaussian(np.array(lat["mean"], dtype=float), cov=cov, constraint="nonnegativity",
                                                                     geometry=lat["dim"], name=lat["name"])
        for d in dens:
            self.add(d, None, "density:" + d.name)
        tri = spec.get("tri")
        if tri:
            # a free-standing conditional distribution whose mean is a function of three conditioning variables (conditioned in several steps)
            self.values.update({"ta": 0.3, "tb": -0.2, "tc": 0.1, "td": 0.7})
            if tri == "normal":
                self.values["w3"] = np.array([0.4])
                t3 = cuqi.distribution.Normal(mean=lambda ta, tb, tc: ta + 10 * tb + 100 * tc, std=1.5, name="w3")
            else:
                self.values["w3"] = np.array([0.4, -0.3])
                t3 = cuqi.distribution.Gaussian(mean=lambda ta, tb, tc: (ta + 10 * tb + 100 * tc) * np.array([1.0, -0.5]),
                                                cov=lambda td: abs(td) + 0.5, geometry=2, name="w3")
            self.add(t3, None, "density:w3")
        if spec.get("fsp"):
            # a Gaussian defined through a full (non-triangular) square root of its precision held in a Fortran-ordered array -
            # the layout LAPACK works on in place - with a conditional mean, so that copies are made and sampled
            self.values.update({"tm": np.array([0.2, -0.1, 0.4]), "g3": np.array([0.3, 0.1, -0.2])})
            U = np.array([[1.0, 0.3, -0.2], [0.3, 1.5, 0.4], [-0.2, 0.4, 2.0]])
            w_, V_ = np.linalg.eigh(U)
            R = np.asfortranarray((V_ * np.sqrt(w_)).T)
            g3 = cuqi.distribution.Gaussian(mean=lambda tm: tm, sqrtprec=R, geometry=3, name="g3")
            self.add(g3, None, "density:g3")
        refused, J = refuses(lambda: cuqi.distribution.JointDistribution(*dens))
        if not refused:
            self.add(J, None, "joint")
        for d in dens:
            m = getattr(d, "mean", None) if hasattr(d, "mean") else None
            for attr in ("mean", "location"):
                m = getattr(d, attr, None) if hasattr(type(d), attr) or attr in vars(d) or True else None
                if isinstance(m, cuqi.model.Model):
                    self.add(m, None, "model_of:" + d.name)
                    break

    def add(self, obj, parent, label, recipe=None):
        entry = {"obj": obj, "parent": parent, "label": label, "recipe": recipe}
        entry["fp"] = self.fingerprint(obj)
        self.pool.append(entry)
        j = len(self.pool) - 1
        if recipe is not None and not self.is_reference:
            self.check_against_untouched(j)
        return j

    # ------------------------------------------------------------------ history independence of derived objects
    is_reference = False

    def derive(self, obj, recipe):
        """perform one recorded derivation step on `obj` (used for the real history and for the untouched reference world)"""
        kind = recipe["kind"]
        if kind == "condition":
            var = recipe["variant"]
            if recipe["positional"]:
                return obj(*[self.values[n] * var for n in recipe["chosen"]])
            return obj(**{n: self.values[n] * var for n in recipe["chosen"]})
        if kind == "to_likelihood":
            return obj.to_likelihood(self.values[recipe["name"]])
        raise ValueError(kind)

    def check_against_untouched(self, j):
        """the object just derived must behave like the same derivation performed on freshly built, untouched originals: what
        happened to its relatives before (other conditionings, evaluations, sampler runs) must not show"""
        chain = []
        k = j
        while self.pool[k]["recipe"] is not None:
            chain.append(self.pool[k]["recipe"])
            k = self.pool[k]["parent"]
        if self.pool[k]["parent"] is not None:
            return      # the chain starts at an object assembled from two pool objects (new_joint): no single-chain reference
        ref = World()
        ref.is_reference = True
        ref.init_graph(self.spec)
        obj = ref.pool[k]["obj"]      # roots are created in the same order
        for rcp in reversed(chain):
            r, obj = refuses(lambda: ref.derive(obj, rcp))
            if r:
                return
        want = ref.fingerprint(obj)
        got = dict(self.pool[j]["fp"])
        # (objects without a name of their own - Posterior, reduced joints - infer one from the caller's variable names: not a behaviour)
        want.pop("name", None)
        got.pop("name", None)
        ok, key = self.fp_equal(got, want)
        require(ok, f"object #{j} ({self.pool[j]['label']}) derived after the history {[t['op'] for t in self.trace[1:]]} does not behave like the same "
                    f"derivation from untouched originals: '{key}' differs (earlier operations on its relatives leak into it)",
                got=jsonable(self.pool[j]["fp"].get(key)), untouched=jsonable(want.get(key)), history=jsonable(self.trace[1:]))

    # ------------------------------------------------------------------ fingerprints
    def args_for(self, names):
        return {n: self.values[n] for n in names}

    def fingerprint(self, obj):
        import cuqi
        fp = {"type": type(obj).__name__}
        if isinstance(obj, cuqi.model.Model):
            fp["args"] = list(cuqi.utilities.get_non_default_args(obj))
            fp["dims"] = (obj.domain_dim, obj.range_dim)
            r, v = refuses(lambda: fval(obj.forward(np.cos(np.arange(obj.domain_dim) + 1.0))))
            fp["forward"] = ("err", type(v).__name__) if r else v
            return fp
        r, names = refuses(lambda: list(obj.get_parameter_names()))
        fp["par_names"] = ("err",) if r else names
        if hasattr(obj, "get_conditioning_variables"):
            r, cv = refuses(lambda: list(obj.get_conditioning_variables()))
            fp["cond_vars"] = ("err",) if r else cv
        if not isinstance(obj, cuqi.distribution.JointDistribution) or isinstance(obj, cuqi.distribution.Distribution):
            r, nm = refuses(lambda: obj.name)
            fp["name"] = ("err",) if r else nm
        r, dim = refuses(lambda: obj.dim)
        fp["dim"] = ("err",) if r else jsonable(dim)
        if not r and isinstance(obj, cuqi.distribution.Distribution):
            rg, g = refuses(lambda: obj.geometry)
            fp["geom_type"] = "err" if rg else type(g).__name__
        if not isinstance(fp["par_names"], tuple) and all(n in self.values for n in fp["par_names"]):
            kw = self.args_for(fp["par_names"])
            r, v = refuses(lambda: fval(obj.logd(**kw)))
            fp["logd"] = ("err", type(v).__name__) if r else v
            if len(fp["par_names"]) == 1 and hasattr(obj, "gradient"):
                r, g = refuses(lambda: obj.gradient(kw[fp["par_names"][0]]))
                fp["gradient"] = ("err", type(g).__name__) if (r or g is None) else fval(g)
        if isinstance(obj, cuqi.distribution.Distribution) and not isinstance(obj, cuqi.distribution.JointDistribution):
            r, ic = refuses(lambda: obj.is_cond)
            if not r and not ic:
                r, s = refuses(lambda: fval(obj.sample(2, rng=np.random.RandomState(7)).samples))
                fp["sample"] = ("err", type(s).__name__) if r else s
            if isinstance(obj, cuqi.implicitprior.RegularizedGaussian) and not r and not ic:
                fp["reg_mean"] = fval(obj.mean)
                sp = obj.sqrtprec
                fp["reg_sqrtprec"] = fval(sp.toarray() if hasattr(sp, "toarray") else sp)
        if isinstance(obj, cuqi.likelihood.Likelihood):
            fp["data"] = fval(obj.data)
        return fp

    @staticmethod
    def fp_equal(a, b):
        if set(a.keys()) != set(b.keys()):
            return False, "keys"
        for k in a:
            va, vb = a[k], b[k]
            if isinstance(va, np.ndarray) or isinstance(vb, np.ndarray):
                if not (isinstance(va, np.ndarray) and isinstance(vb, np.ndarray) and va.shape == vb.shape):
                    return False, k
                if not np.array_equal(va, vb, equal_nan=True) and not close(va, vb, 1e-12):
                    return False, k
            elif va != vb:
                return False, k
        return True, None

    def check_invariant(self):
        for i, e in enumerate(self.pool):
            now = self.fingerprint(e["obj"])
            ok, key = self.fp_equal(e["fp"], now)
            require(ok, f"object #{i} ({e['label']}, {e['fp']['type']}) changed its behaviour: '{key}' differs from its fingerprint at creation "
                        f"after the history {[t['op'] for t in self.trace[1:]]}",
                    before=jsonable(e["fp"].get(key)), after=jsonable(now.get(key)), history=jsonable(self.trace[1:]))

    # ------------------------------------------------------------------ operations
    def apply(self, op):
        import cuqi
        self.trace.append(op)
        kind = op["op"]
        if not self.pool:
            return
        i = op.get("i", 0) % len(self.pool)
        e = self.pool[i]
        obj = e["obj"]
        is_model = isinstance(obj, cuqi.model.Model)
        if kind == "condition" and not is_model:
            names = e["fp"]["par_names"]
            if isinstance(names, tuple) or not names:
                return
            mask = op["mask"]
            chosen = [n for k, n in enumerate(names) if (mask >> k) & 1 and n in self.values]
            if not chosen:
                chosen = [n for n in names if n in self.values][:1]
            if not chosen:
                return
            # siblings: the same original conditioned on different values (variant scales them; factors <= 1 keep every value
            # admissible) must each keep their own behaviour while the others are created and used
            var = float(op.get("variant", 1.0))
            recipe = {"kind": "condition", "chosen": chosen, "variant": var, "positional": bool(op.get("positional") and chosen == names[:len(chosen)])}
            r, new = refuses(lambda: self.derive(obj, recipe))
            if r or new is None:
                return
            j = self.add(new, i, f"cond({e['label']};{','.join(chosen)}" + (f";x{var}" if var != 1.0 else "") + ")", recipe=recipe)
            # a conditioned copy keeps the random-variable name of its original
            if "name" in e["fp"] and not isinstance(e["fp"]["name"], tuple) and hasattr(new, "name") and \
                    isinstance(new, (cuqi.distribution.Distribution, cuqi.likelihood.Likelihood, cuqi.density.EvaluatedDensity)) and \
                    not isinstance(new, cuqi.distribution.Posterior):
                rn, nm = refuses(lambda: new.name)
                require(not rn and nm == e["fp"]["name"], "a conditioned copy does not report the random-variable name of its original",
                        original=e["fp"]["name"], copy=None if rn else nm)
        elif kind == "logd" and not is_model:
            names = e["fp"]["par_names"]
            if not isinstance(names, tuple) and all(n in self.values for n in names):
                refuses(lambda: obj.logd(**self.args_for(names)))
                refuses(lambda: obj.logd(*[self.values[n] for n in names]))
        elif kind == "gradient" and not is_model:
            names = e["fp"]["par_names"]
            if not isinstance(names, tuple) and len(names) == 1 and hasattr(obj, "gradient"):
                refuses(lambda: obj.gradient(self.values[names[0]] * 1.0))
        elif kind == "sample" and not is_model:
            if hasattr(obj, "sample"):
                refuses(lambda: obj.sample(op.get("N", 1), rng=np.random.RandomState(op.get("seed", 0))))
        elif kind == "to_likelihood" and not is_model:
            if isinstance(obj, cuqi.distribution.Distribution) and not isinstance(obj, cuqi.distribution.JointDistribution):
                r, nm = refuses(lambda: obj.name)
                if not r and nm in self.values:
                    recipe = {"kind": "to_likelihood", "name": nm}
                    r, new = refuses(lambda: self.derive(obj, recipe))
                    if not r:
                        self.add(new, i, f"lik({e['label']})", recipe=recipe)
        elif kind == "apply_model" and is_model:
            dists = [p for p in self.pool if isinstance(p["obj"], cuqi.distribution.Distribution)
                     and not isinstance(p["obj"], cuqi.distribution.JointDistribution)]
            if dists:
                d = dists[op.get("j", 0) % len(dists)]["obj"]
                r, new = refuses(lambda: obj(d))
                if not r and isinstance(new, cuqi.model.Model):
                    self.add(new, i, f"model({e['label']})")
        elif kind == "recondition_loop" and not is_model:
            names = e["fp"]["par_names"]
            if isinstance(names, tuple) or len(names) < 1:
                return
            target = [n for n in names if n in self.values][: max(1, len(names) - 1)]
            for k in range(op.get("reps", 200)):
                scale = 1.0 + 0.001 * (k % 7)
                r, _ = refuses(lambda: obj(**{n: self.values[n] * scale for n in target}))
                if r:
                    break
        elif kind == "new_joint" and not is_model:
            # a new joint distribution assembled from objects of the pool (e.g. an already reduced density and an untouched one)
            D = cuqi.distribution
            cands = [p for p in self.pool if isinstance(p["obj"], D.Distribution) and not isinstance(p["obj"], D.JointDistribution)]
            if isinstance(obj, D.Distribution) and not isinstance(obj, D.JointDistribution) and cands:
                other = cands[op.get("j", 0) % len(cands)]["obj"]
                r1, n1 = refuses(lambda: obj.name)
                r2, n2 = refuses(lambda: other.name)
                if not r1 and not r2 and n1 != n2:
                    r, J = refuses(lambda: D.JointDistribution(obj, other))
                    if not r:
                        jj = self.add(J, i, f"joint({e['label']}+{n2})")
                        # ... and conditioned on the added variable straight away (reduces to the first object again)
                        if n2 in self.values:
                            r, red = refuses(lambda: J(**{n2: self.values[n2]}))
                            if not r and red is not None:
                                self.add(red, jj, f"cond(joint({e['label']}+{n2});{n2})")
        elif kind == "run_sampler" and not is_model:
            self.run_sampler(obj, op)

    def run_sampler(self, obj, op):
        import cuqi
        E, L = cuqi.experimental.mcmc, cuqi.sampler
        which = op.get("which", "MH")
        np.random.seed(op.get("seed", 0))
        try:
            if isinstance(obj, cuqi.distribution.JointDistribution) and not isinstance(obj, cuqi.distribution.Distribution):
                r, names = refuses(lambda: list(obj.get_parameter_names()))
                if r or len(names) < 2 or not all(n in self.values for n in names):
                    return
                if which == "Gibbs_legacy":
                    strat = {n: (lambda t, n=n: L.MH(t, scale=0.05, x0=np.atleast_1d(self.values[n]).astype(float))) for n in names}
                    refuses(lambda: L.Gibbs(obj, strat).sample(2))
                else:
                    strat = {n: E.MH(scale=0.05, initial_point=np.atleast_1d(self.values[n]).astype(float)) for n in names}
                    refuses(lambda: E.HybridGibbs(obj, strat).sample(2))
                return
            if not isinstance(obj, cuqi.distribution.Distribution):
                return
            # (a RegularizedGaussian whose inner Gaussian has been evaluated away cannot even list its parameters: nothing to run)
            r, names = refuses(lambda: list(obj.get_parameter_names()))
            r2, ic = refuses(lambda: bool(obj.is_cond))
            if r or r2 or len(names) != 1 or names[0] not in self.values or ic:
                return
            x0 = np.atleast_1d(self.values[names[0]]).astype(float)
            if which == "MH":
                refuses(lambda: E.MH(obj, scale=0.05, initial_point=x0.copy()).sample(3))
            elif which == "MH_legacy":
                refuses(lambda: L.MH(obj, scale=0.05, x0=x0.copy()).sample(3))
            elif which == "NUTS":
                refuses(lambda: E.NUTS(obj, initial_point=x0.copy(), max_depth=3).warmup(2).sample(2))
            else:
                refuses(lambda: E.CWMH(obj, scale=0.05, initial_point=x0.copy()).sample(2))
        finally:
            np.random.seed()


# ----------------------------------------------------------------------------- Hypothesis machine

def make_machine(rec, tier):
    class ImmutabilityMachine(RuleBasedStateMachine):
        failure = None

        def __init__(self):
            super().__init__()
            self.w = World()
            self.nsteps = 0

        def guarded(self, fn):
            try:
                try:
                    fn()
                    self.w.check_invariant()
                except Violation:
                    raise
                except Exception as e:
                    # an exception that comes out of library code while the harness builds / fingerprints documented objects
                    from vlib.runner import raised_in_library, library_exception_as_violation
                    if e.__class__.__module__.startswith("hypothesis") or not raised_in_library(e):
                        raise
                    raise library_exception_as_violation(e) from None
            except Violation as v:
                type(self).failure = (jsonable(self.w.trace), v, {"steps": self.nsteps})
                raise

        @initialize(spec=graphs.graph_spec(max_dim=3, max_data=2), reg=st.booleans(), tri=st.sampled_from([None, "normal", "gaussian"]),
                    fsp=st.booleans())
        def init(self, spec, reg, tri, fsp):
            spec = dict(spec, reg_latent=bool(reg), tri=tri, fsp=bool(fsp))
            self.guarded(lambda: self.w.init_graph(spec))

        @rule(i=st.integers(0, 40), mask=st.integers(1, 31), positional=st.booleans(), variant=st.sampled_from([1.0, 0.8, 0.6, 1.000001]))
        def condition(self, i, mask, positional, variant):
            self.nsteps += 1
            self.guarded(lambda: self.w.apply({"op": "condition", "i": i, "mask": mask, "positional": positional, "variant": variant}))

        @rule(i=st.integers(0, 40), what=st.sampled_from(["logd", "gradient", "to_likelihood"]))
        def evaluate(self, i, what):
            self.nsteps += 1
            self.guarded(lambda: self.w.apply({"op": what, "i": i}))

        @rule(i=st.integers(0, 40), N=st.integers(1, 3), seed=st.integers(0, 5))
        def sample(self, i, N, seed):
            self.nsteps += 1
            self.guarded(lambda: self.w.apply({"op": "sample", "i": i, "N": N, "seed": seed}))

        @rule(i=st.integers(0, 40), j=st.integers(0, 10))
        def apply_model(self, i, j):
            self.nsteps += 1
            self.guarded(lambda: self.w.apply({"op": "apply_model", "i": i, "j": j}))

        @rule(i=st.integers(0, 40), j=st.integers(0, 20))
        def new_joint(self, i, j):
            self.nsteps += 1
            self.guarded(lambda: self.w.apply({"op": "new_joint", "i": i, "j": j}))

        @rule(i=st.integers(0, 40))
        def recondition_loop(self, i):
            self.nsteps += 1
            self.guarded(lambda: self.w.apply({"op": "recondition_loop", "i": i, "reps": 200 if tier == "quick" else 1000}))

        @rule(i=st.integers(0, 40), which=st.sampled_from(["MH", "MH_legacy", "NUTS", "CWMH", "Gibbs", "Gibbs_legacy"]), seed=st.integers(0, 3))
        def run_sampler(self, i, which, seed):
            self.nsteps += 1
            self.guarded(lambda: self.w.apply({"op": "run_sampler", "i": i, "which": which, "seed": seed}))

        def teardown(self):
            if self.w.spec is not None:
                rec.begin({"trace_ops": [t["op"] for t in self.w.trace], "pool": [e["label"] for e in self.w.pool][:12]})
                rec.classify({"steps": min(self.nsteps // 10 * 10, 50), "pool": min(len(self.w.pool) // 5 * 5, 30)}, self.nsteps >= 3 and len(self.w.pool) >= 3,
                             key=jsonable(self.w.trace))
                rec.count("rule_steps", self.nsteps)
    return ImmutabilityMachine


def run_trace(c, rec):
    """plain replay of a recorded history"""
    rec.classify({"replay": True}, True)
    w = World()
    for op in c["trace"]:
        if op["op"] == "init":
            w.init_graph(op["spec"])
        else:
            w.apply(op)
        w.check_invariant()


# ----------------------------------------------------------------------------- names of conditioned copies

NAME_FAMILIES = ["Gaussian", "Normal", "Gamma", "LMRF", "GMRF", "RegularizedGaussian", "ConstrainedGaussian", "NonnegativeGaussian",
                 "RegularizedGMRF", "ConstrainedGMRF", "NonnegativeGMRF"]


@st.composite
def name_cases(draw, tier="quick"):
    return {"family": draw(st.sampled_from(NAME_FAMILIES)), "explicit": draw(st.booleans()), "lookup_first": draw(st.booleans()),
            "two_steps": draw(st.sampled_from([True, True, False])), "order": draw(st.booleans()), "m": draw(gen.fl(-1, 1)), "s": draw(gen.fl(0.3, 2.0)),
            "value": draw(gen.vec(3, 0.1, 1.0)), "then_self": draw(st.sampled_from([True, True, False]))}


def _named_family(c, nm):
    import cuqi
    D, I = cuqi.distribution, cuqi.implicitprior
    kw = {"name": nm} if nm else {}
    n = 3
    mean = lambda mu_: mu_ * np.ones(n)
    f = c["family"]
    if f == "Gaussian":
        return D.Gaussian(mean, cov=lambda sg_: sg_, geometry=n, **kw)
    if f == "Normal":
        return D.Normal(mean=lambda mu_: mu_, std=lambda sg_: sg_, **kw)
    if f == "Gamma":
        return D.Gamma(shape=lambda mu_: abs(mu_) + 1.0, rate=lambda sg_: sg_, **kw)
    if f == "LMRF":
        return D.LMRF(lambda mu_: mu_ * np.ones(n), lambda sg_: sg_, geometry=n, **kw)
    if f == "GMRF":
        return D.GMRF(mean, lambda sg_: sg_, geometry=n, **kw)
    if f == "RegularizedGaussian":
        return I.RegularizedGaussian(mean, cov=lambda sg_: sg_, constraint="nonnegativity", geometry=n, **kw)
    if f == "ConstrainedGaussian":
        return I.ConstrainedGaussian(mean, cov=lambda sg_: sg_, constraint="nonnegativity", geometry=n, **kw)
    if f == "NonnegativeGaussian":
        return I.NonnegativeGaussian(mean, cov=lambda sg_: sg_, geometry=n, **kw)
    # (the regularised GMRFs take the dimension from a constant mean: one conditioning variable)
    if f == "RegularizedGMRF":
        return I.RegularizedGMRF(np.zeros(n), prec=lambda sg_: sg_, constraint="nonnegativity", **kw)
    if f == "ConstrainedGMRF":
        return I.ConstrainedGMRF(np.zeros(n), prec=lambda sg_: sg_, constraint="nonnegativity", **kw)
    return I.NonnegativeGMRF(np.zeros(n), prec=lambda sg_: sg_, **kw)


def run_names(c, rec):
    """a conditioned copy reports the random-variable name of its original - whether that name was given explicitly or is the Python
    variable the original is bound to, whether or not it had been looked up before, and through several conditioning steps"""
    import cuqi
    tags = {"family": c["family"], "name": "explicit" if c["explicit"] else "variable", "lookup_first": c["lookup_first"], "steps": 2 if c["two_steps"] else 1,
            "then_self": bool(c["then_self"])}
    if rec.classify(tags, True):
        return
    want = "qq" if c["explicit"] else "prior_q"
    prior_q = must(lambda: _named_family(c, "qq" if c["explicit"] else None), "constructing a conditional distribution")
    if c["lookup_first"]:
        require(prior_q.name == want, "a distribution does not report its name", got=prior_q.name, want=want)
    first, second = (("mu_", c["m"]), ("sg_", c["s"])) if c["order"] else (("sg_", c["s"]), ("mu_", c["m"]))
    single = c["family"] in ("RegularizedGMRF", "ConstrainedGMRF", "NonnegativeGMRF")
    if single:
        first = ("sg_", c["s"])
    copy_a = must(lambda: prior_q(**{first[0]: first[1]}), "conditioning on one of two conditioning variables")
    last = copy_a
    got = must(lambda: copy_a.name, "reading the name of a conditioned copy")
    require(got == want, "a conditioned copy does not report the random-variable name of its original", copy=got, original=want, step=1)
    if c["two_steps"] and not single:
        copy_b = must(lambda: copy_a(**{second[0]: second[1]}), "conditioning the copy on the remaining variable")
        got = must(lambda: copy_b.name, "reading the name of a twice conditioned copy")
        require(got == want, "a twice conditioned copy does not report the random-variable name of its original", copy=got, original=want, step=2)
        last = copy_b
    require(prior_q.name == want, "the original's name changed by conditioning", got=prior_q.name, want=want)
    if c["then_self"] and (c["two_steps"] or single):
        # conditioning a copy on the random variable itself (by the original's name) gives a likelihood / an evaluated density
        v = A(c["value"])[:1] if c["family"] in ("Normal", "Gamma") else A(c["value"])
        out = must(lambda: last(**{want: v}), "conditioning a conditioned copy on its own random variable")
        require(isinstance(out, (cuqi.likelihood.Likelihood, cuqi.density.EvaluatedDensity)),
                "conditioning on the random variable itself does not give a likelihood / evaluated density", got=type(out).__name__)
        fixed_value = out      # (bound to another Python variable name on purpose)
        got_name = must(lambda: fixed_value.name, "reading the name of the likelihood / evaluated density")
        require(got_name == want, f"the {type(out).__name__} obtained by conditioning on the random variable itself does not carry the "
                "random-variable name of its original", got=got_name, want=want)


# ----------------------------------------------------------------------------- looking at an original does not change what it gives later

OBS_FAMILIES = ["Normal", "Gaussian_scalar_cov", "Gamma", "Laplace", "Cauchy", "Lognormal", "Beta", "Uniform", "Gaussian_geom"]
OBSERVATIONS = ["dim", "geometry", "name", "is_cond", "parameter_names", "conditioning_variables", "repr", "mutable_variables"]


@st.composite
def observe_cases(draw, tier="quick"):
    return {"family": draw(st.sampled_from(OBS_FAMILIES)), "n": draw(st.integers(1, 4)),
            "obs": draw(st.lists(st.sampled_from(OBSERVATIONS), min_size=1, max_size=4)),
            "m": draw(gen.vec(4, 0.2, 1.5)), "value": draw(gen.vec(4, 0.1, 0.9)), "explicit_name": draw(st.booleans())}


def _obs_family(c):
    import cuqi
    D = cuqi.distribution
    kw = {"name": "zz"} if c["explicit_name"] else {}
    f = c["family"]
    if f == "Normal":
        return D.Normal(lambda mu_: mu_, 1.3, **kw)
    if f == "Gaussian_scalar_cov":
        return D.Gaussian(lambda mu_: mu_, 0.8, **kw)
    if f == "Gaussian_geom":
        return D.Gaussian(lambda mu_: mu_, 0.8, geometry=c["n"], **kw)
    if f == "Gamma":
        return D.Gamma(shape=lambda mu_: mu_ + 1.0, rate=2.0, **kw)
    if f == "Laplace":
        return D.Laplace(lambda mu_: mu_, 0.7, **kw)
    if f == "Cauchy":
        return D.Cauchy(lambda mu_: mu_, 0.7, **kw)
    if f == "Lognormal":
        return D.Lognormal(lambda mu_: mu_, 0.8, **kw)
    if f == "Beta":
        return D.Beta(lambda mu_: mu_ + 0.5, 2.0, **kw)
    return D.Uniform(lambda mu_: mu_ - 2.0, 3.0, **kw)


def run_observe(c, rec):
    """a conditioning of an original gives the same object whether or not the original was looked at (dimension, geometry, name,
    variable lists, repr) before: reference = the same conditioning on a freshly built, never inspected twin"""
    import cuqi
    n = c["n"]
    tags = {"family": c["family"], "n": n, "obs": ",".join(sorted(set(c["obs"])))}
    if rec.classify(tags, True):
        return
    m = A(c["m"])[:n]
    v = A(c["value"])[:n]

    def behaviour(d):
        out = {}
        for key, fn in (("dim", lambda: d.dim), ("geom", lambda: type(d.geometry).__name__ + str(d.geometry.par_shape)),
                        ("logd", lambda: fval(d.logd(v))), ("sample", lambda: fval(d.sample(2, rng=np.random.RandomState(3)).samples))):
            r, val = refuses(fn)
            out[key] = ("refused", type(val).__name__) if r else val
        return out

    fresh = must(lambda: _obs_family(c), "constructing a conditional distribution")
    want = behaviour(must(lambda: fresh(mu_=m.copy()), "conditioning a conditional distribution"))
    looked = _obs_family(c)
    for o in c["obs"]:
        refuses({"dim": lambda: looked.dim, "geometry": lambda: looked.geometry, "name": lambda: looked.name, "is_cond": lambda: looked.is_cond,
                 "parameter_names": lambda: looked.get_parameter_names(), "conditioning_variables": lambda: looked.get_conditioning_variables(),
                 "repr": lambda: repr(looked), "mutable_variables": lambda: looked.get_mutable_variables()}[o])
    got = behaviour(must(lambda: looked(mu_=m.copy()), "conditioning a conditional distribution after it was inspected"))
    for key in want:
        a, b = got[key], want[key]
        same = (a == b) if isinstance(a, (tuple, str, int, type(None))) or isinstance(b, (tuple, str, int, type(None))) else \
            (np.shape(a) == np.shape(b) and close(a, b, 1e-12))
        require(bool(same), f"after the original was inspected ({', '.join(c['obs'])}) a conditioned copy gives another '{key}' than the same conditioning of a "
                "never inspected original", got=jsonable(a), never_inspected=jsonable(b))


SUBCHECKS = [
    SubCheck("C11/immutability_machine", run_trace, machine=make_machine, n={"quick": 600, "thorough": 6000}, shards={"quick": 12, "thorough": 16},
             steps={"quick": 25, "thorough": 50}),
    SubCheck("C11/inspection", run_observe, strategy=observe_cases, n={"quick": 1200, "thorough": 6000}, shards={"quick": 2, "thorough": 8}),
    SubCheck("C11/copy_names", run_names, strategy=name_cases, n={"quick": 2000, "thorough": 6000}, shards={"quick": 2, "thorough": 8}),
]
