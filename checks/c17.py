"""C17 - shipped test problems match their documentation and are internally consistent."""
import numpy as np
from hypothesis import strategies as st
from scipy.ndimage import convolve1d

from vlib.core import SubCheck, Violation, require, close, maxdiff, A, must, refuses
from vlib import gen
from vlib.rand import ScriptedRNG, patched_global

PROPERTY = "C17"
RULE = ("Hypothesis draws constructor options at small sizes: Deconvolution1D (dim 8-24, PSF gauss/moffat/defocus/custom "
        "asymmetric array, PSF parameter, PSF size parity, 5 boundary conditions, phantoms, noise type/level, legacy form), "
        "Deconvolution2D (dim 6-10, PSF kinds, sizes, 5 bc, noise), Heat1D / Poisson1D (dim 8-16, field types, maps, observation "
        "sub-grids, custom exact solutions, SNR), Abel1D, WangCubic; the noise is a scripted standard-normal vector. "
        "Non-trivial: an option breaks a symmetry of the defaults (asymmetric PSF, non-periodic bc, even PSF size, scaled noise, "
        "mapped field, observation sub-grid); distinct = distinct generated case.")
ASSUMPTIONS = ["reference operators: scipy.ndimage.convolve1d with the stated PSF and mode (the documented definition of Deconvolution1D), "
               "direct (non-FFT) 2-D convolution sums of the boundary-extended image, own explicit-Euler loop, own assembly of "
               "D^T diag(kappa) D u = f, own Abel quadrature, the documented cubic",
               "the discretisation constants of the PDE problems (grid, CFL number) are taken from the problem description in the code comments"]


def scripted_noise_ctx(e):
    return patched_global(ScriptedRNG(normal=list(e)))


def gauss_loglik(res, sigma):
    sigma = np.broadcast_to(np.asarray(sigma, dtype=float), res.shape)
    return float(-0.5 * np.sum((res / sigma) ** 2) - np.sum(np.log(sigma)) - 0.5 * res.size * np.log(2 * np.pi))


# ----------------------------------------------------------------------------- PSFs (1-D)

def psf1d(kind, size, param):
    if param is None:
        param = 10
    x = np.arange(-np.fix(size / 2), np.ceil(size / 2))
    if kind == "gauss":
        P = np.exp(-0.5 * x ** 2 / param ** 2)
    elif kind == "moffat":
        P = 1.0 / (1 + x ** 2 / param ** 2)
    else:  # defocus: uniform on the pixels within distance param of the centre pixel (the same pixel grid as the other kernels)
        P = (x ** 2 <= param ** 2).astype(float)
    return P / P.sum()


def psf2d(kind, size, param):
    """named 2-D kernels by their definition on the pixel grid centred at pixel size//2 (Gauss: std = param; Moffat: scale = param,
    exponent 1; defocus: uniform on the pixels within distance param of the centre)"""
    x = np.arange(-np.fix(size / 2), np.ceil(size / 2))
    X, Y = np.meshgrid(x, x)
    if kind == "gauss":
        P = np.exp(-0.5 * (X ** 2 + Y ** 2) / param ** 2)
    elif kind == "moffat":
        P = 1.0 / (1 + (X ** 2 + Y ** 2) / param ** 2)
    else:
        P = ((X ** 2 + Y ** 2) <= param ** 2).astype(float)
    return P / P.sum()


MODE1 = {"zero": "constant", "periodic": "wrap", "mirror": "mirror", "reflect": "reflect", "nearest": "nearest"}


@st.composite
def deconv1d_cases(draw, tier="quick"):
    dim = draw(st.integers(8, 16 if tier == "quick" else 32))
    psf = draw(st.sampled_from(["gauss", "moffat", "defocus", "array", "array"]))
    c = {"dim": dim, "PSF": psf, "PSF_param": draw(st.sampled_from([None, 1.2, 2.5, 4.0])),
         "PSF_size": draw(st.one_of(st.none(), st.integers(3, dim), st.integers(dim + 1, dim + 3))),
         "BC": draw(st.sampled_from(["zero", "periodic", "Mirror", "Reflect", "Nearest"])),
         "phantom": draw(st.sampled_from(["gauss", "sinc", "vonMises", "square", "hat", "bumps", "derivGauss", "pc", "skyscraper", "array"])),
         "noise_type": draw(st.sampled_from(["gaussian", "scaledGaussian"])),
         "noise_std": draw(st.sampled_from([0.01, 0.2, 1.5])),
         "e": draw(gen.vec(dim, -2, 2)), "x": draw(gen.vec(dim, -2, 2))}
    if psf == "array":
        k = draw(st.integers(2, dim))
        c["PSF_array"] = draw(gen.vec(k, 0.0, 1.0))
        c["PSF_array"][0] += 0.5  # asymmetric and non-zero
    c["positional"] = draw(st.booleans())
    c["param_type"] = draw(st.sampled_from([None, None, "float32", "int64", "float64"]))
    if c["phantom"] == "array":
        c["phantom_array"] = draw(gen.vec(dim, 0.1, 2))
    return c


def run_deconv1d(c, rec):
    import cuqi
    dim = c["dim"]
    if c.get("param_type") == "float32" and c["PSF"] != "array" and c["PSF_param"] is not None:
        c = dict(c, PSF_param=float(np.float32(c["PSF_param"])))      # (the number that np.float32 holds, for the reference)
    P = A(c["PSF_array"]) if c["PSF"] == "array" else psf1d(c["PSF"], c["PSF_size"] or dim, c["PSF_param"])
    asym = maxdiff(P, P[::-1]) > 1e-12 or len(P) % 2 == 0
    tags = {"problem": "Deconvolution1D", "PSF": c["PSF"], "BC": c["BC"].lower(), "noise": c["noise_type"].lower(),
            "psf_asymmetric_or_even": bool(asym)}
    if rec.classify(tags, asym or c["BC"].lower() != "periodic" or c["noise_type"] != "gaussian"):
        return
    kw = dict(dim=dim, PSF=(A(c["PSF_array"]) if c["PSF"] == "array" else c["PSF"]), PSF_param=c["PSF_param"], BC=c["BC"],
              phantom=(A(c["phantom_array"]) if c["phantom"] == "array" else c["phantom"]), noise_type=c["noise_type"],
              noise_std=c["noise_std"])
    if c["PSF_size"] is not None and c["PSF"] != "array":
        kw["PSF_size"] = c["PSF_size"]
    e = A(c["e"])
    # the PSF parameter may come out of numpy (np.float32 / np.int64 / a 0-d array element of np.arange): it is the same number
    if c.get("param_type") and c["PSF"] != "array" and c["PSF_param"] is not None:
        kw["PSF_param"] = {"float32": np.float32, "int64": np.int64, "float64": np.float64}[c["param_type"]](c["PSF_param"]) \
            if (c["param_type"] != "int64" or float(c["PSF_param"]) == int(c["PSF_param"])) else c["PSF_param"]
    ctor = cuqi.testproblem.Deconvolution1D
    if c.get("positional") and c["PSF"] != "array" and "PSF_size" in kw:
        # the first five arguments by position in their documented order: dim, PSF, PSF_param, PSF_size, BC
        head = [kw.pop(k) for k in ("dim", "PSF", "PSF_param", "PSF_size", "BC")]
        ctor = (lambda **rest: cuqi.testproblem.Deconvolution1D(*head, **rest))
    with scripted_noise_ctx(e):
        refused, tp = refuses(lambda: ctor(**kw))
    if refused:
        # scaled noise with a vanishing exact datum has zero variance: the constructor refuses (no wrong result)
        require(c["noise_type"] != "gaussian", f"constructing Deconvolution1D failed: {tp}")
        rec.count("construction_refused_zero_variance")
        return
    ref = lambda v: convolve1d(np.asarray(v, dtype=float), P, mode=MODE1[c["BC"].lower()])
    x = A(c["x"])
    require(close(tp.model.forward(x), ref(x), 1e-10),
            f"Deconvolution1D forward model is not convolve1d with the stated PSF and boundary condition (PSF={c['PSF']}, BC={c['BC']})",
            got=np.asarray(tp.model.forward(x)), want=ref(x))
    check_components(tp, rec, "Deconvolution1D")
    xe = np.asarray(tp.exactSolution, dtype=float)
    if c["phantom"] == "array":
        require(maxdiff(xe, A(c["phantom_array"])) == 0, "exactSolution is not the phantom that was passed")
    require(close(tp.exactData, ref(xe), 1e-10), "exactData is not the documented operator applied to the exact solution")
    sig = c["noise_std"] if c["noise_type"] == "gaussian" else np.abs(ref(xe)) * c["noise_std"]
    if np.min(np.asarray(sig)) <= 1e-4 * np.max(np.asarray(sig)):
        # an exact datum that is zero up to round-off (1e-17 by symmetry of the phantom) gives a variance of 1e-38: the scaled
        # noise model is degenerate there and its log-density is round-off noise times 1e19
        rec.inconc("vanishing_noise_scale")
        return
    require(close(np.asarray(tp.data) - np.asarray(tp.exactData), sig * e, 1e-9),
            f"data - exactData is not noise of the stated type/level ({c['noise_type']}, std {c['noise_std']})",
            got=np.asarray(tp.data) - np.asarray(tp.exactData), want=sig * e)
    want = gauss_loglik(np.asarray(tp.data) - ref(x), sig) + float(tp.prior.logd(x))
    require(close(float(tp.posterior.logd(x)), want, 1e-9), "posterior log-density is not Gaussian log-likelihood of the stated noise plus log-prior",
            got=float(tp.posterior.logd(x)), want=want)
    require("{}".format(c["noise_std"]) in tp.infoString, "infoString does not state the noise level")


def check_components(tp, rec, what):
    import cuqi
    model, data, info = tp.get_components()
    require(model is tp.model and model is tp.likelihood.model and model is tp.posterior.model, f"{what}: handed-out models are not one object")
    require(data is tp.data and data is tp.likelihood.data, f"{what}: handed-out data are not one object")
    require(tp.posterior.likelihood is tp.likelihood and tp.posterior.prior is tp.prior, f"{what}: posterior not built from the handed-out likelihood/prior")
    require(info.exactSolution is tp.exactSolution and info.exactData is tp.exactData, f"{what}: get_components() info differs")
    require(tp.likelihood.geometry == model.domain_geometry, f"{what}: likelihood geometry is not the model's domain geometry")
    require(tp.prior.dim == model.domain_dim, f"{what}: prior dimension differs from the model's domain dimension")
    require(np.size(data) == model.range_dim, f"{what}: data size differs from the model's range dimension")
    if isinstance(tp.exactData, cuqi.array.CUQIarray):
        require(tp.exactData.geometry == model.range_geometry, f"{what}: exactData does not carry the range geometry")
    if isinstance(tp.exactSolution, cuqi.array.CUQIarray):
        require(tp.exactSolution.geometry == model.domain_geometry, f"{what}: exactSolution does not carry the domain geometry")


# ----------------------------------------------------------------------------- legacy 1-D

@st.composite
def legacy_cases(draw, tier="quick"):
    dim = 2 * draw(st.integers(3, 10))
    psf = draw(st.sampled_from(["gauss", "sinc", "vonMises", "array"]))
    c = {"dim": dim, "PSF": psf, "PSF_param": draw(st.sampled_from([None, 3.0, 12.0])), "e": draw(gen.vec(dim, -2, 2)),
         "x": draw(gen.vec(dim, -2, 2)), "noise_std": draw(st.sampled_from([0.01, 0.5]))}
    if psf == "array":
        c["PSF_array"] = draw(gen.vec(dim, 0.0, 1.0))
        c["PSF_param"] = None
    return c


def run_legacy(c, rec):
    import cuqi
    dim = c["dim"]
    if rec.classify({"problem": "Deconvolution1D-legacy", "PSF": c["PSF"]}, c["PSF"] == "array"):
        return
    e = A(c["e"])
    PSF = A(c["PSF_array"]) if c["PSF"] == "array" else c["PSF"]
    with scripted_noise_ctx(e):
        tp = must(lambda: cuqi.testproblem.Deconvolution1D(dim=dim, PSF=PSF, PSF_param=c["PSF_param"], phantom="gauss",
                                                           noise_std=c["noise_std"], use_legacy=True), "constructing legacy Deconvolution1D")
    M = tp.model.get_matrix()
    M = M.toarray() if hasattr(M, "toarray") else np.asarray(M)
    # circulant: entry depends on (i-j) mod dim
    for s in range(dim):
        d = np.array([M[i, (i - s) % dim] for i in range(dim)])
        require(maxdiff(d, d[0] * np.ones(dim)) <= 1e-12, "legacy matrix is not circulant")
    if c["PSF"] == "array":
        # periodic convolution with the given kernel centred at dim/2
        x = A(c["x"])
        h = np.roll(A(c["PSF_array"]), -dim // 2)
        want = np.real(np.fft.ifft(np.fft.fft(h) * np.fft.fft(x)))
        hr = np.roll(h[::-1], 1)  # the legacy (Matlab-derived) form applies the kernel as a correlation: accepted as well
        want2 = np.real(np.fft.ifft(np.fft.fft(hr) * np.fft.fft(x)))
        got = np.asarray(tp.model.forward(x))
        require(close(got, want, 1e-10) or close(got, want2, 1e-10), "legacy forward model is not periodic convolution/correlation with the given kernel",
                got=got, want=want)
    check_components(tp, rec, "legacy Deconvolution1D")
    xe = np.asarray(tp.exactSolution, dtype=float)
    require(close(tp.exactData, M @ xe, 1e-12), "exactData is not model(exactSolution)")
    require(close(np.asarray(tp.data) - np.asarray(tp.exactData), c["noise_std"] * e, 1e-9), "data - exactData is not the stated noise")


# ----------------------------------------------------------------------------- 2-D

PADMODE = {"zero": "constant", "periodic": "wrap", "neumann": "symmetric", "mirror": "reflect", "nearest": "edge"}


def conv2_direct(X, P, bc):
    """out[i,j] = sum_{u,v} P[u,v] * Xext[i + c - u, j + c - v], c = size//2, Xext the boundary-extended image"""
    s = max(P.shape)
    cpad = s // 2
    Xp = np.pad(X, cpad, mode=PADMODE[bc])  # Xp[k + cpad] = Xext[k]
    n, m = X.shape
    out = np.zeros((n, m))
    for i in range(n):
        for j in range(m):
            acc = 0.0
            for u in range(P.shape[0]):
                for v in range(P.shape[1]):
                    acc += P[u, v] * Xp[i + 2 * cpad - u, j + 2 * cpad - v]
            out[i, j] = acc
    return out


@st.composite
def deconv2d_cases(draw, tier="quick"):
    dim = draw(st.integers(6, 8 if tier == "quick" else 10))
    psf = draw(st.sampled_from(["gauss", "moffat", "defocus", "array", "array"]))
    size = draw(st.integers(2, 5))
    c = {"dim": dim, "PSF": psf, "PSF_param": draw(st.sampled_from([0.7, 1.0, 1.5, 2.0, 2.56])), "PSF_size": size,
         "BC": draw(st.sampled_from(["zero", "periodic", "Neumann", "Mirror", "Nearest"])),
         "noise_type": draw(st.sampled_from(["gaussian", "scaledGaussian"])), "noise_std": draw(st.sampled_from([0.0036, 0.3])),
         "phantom": draw(gen.mat(dim, dim, 0.1, 2)), "e": draw(gen.vec(dim * dim, -2, 2)), "x": draw(gen.vec(dim * dim, -2, 2)),
         # a named phantom of the library's collection instead of an array (some of them are generated from their own seeded stream)
         # ('threephases' draws from the caller's global stream by design and is not used; 'p_power' returns a size-1 image for odd
         # sizes, which makes the constructor fail - a crash, not a silent error - so it is asked for even sizes only)
         "phantom_name": draw(st.sampled_from([None, None, "p_power", "grains", "shepp_logan", "satellite"])),
         "gseed": draw(st.integers(0, 10 ** 6))}
    if psf == "array":
        c["PSF_array"] = draw(gen.mat(size, size, 0.0, 1.0))
        c["PSF_array"][0][0] += 0.5
    if c["phantom_name"] == "p_power" and dim % 2 == 1:
        c["phantom_name"] = "grains"
    return c


def run_deconv2d(c, rec):
    import cuqi
    dim = c["dim"]
    tags = {"problem": "Deconvolution2D", "PSF": c["PSF"], "BC": c["BC"].lower(), "noise": c["noise_type"].lower(),
            "psf_parity": "even" if c["PSF_size"] % 2 == 0 else "odd"}
    if rec.classify(tags, True):
        return
    PSF = A(c["PSF_array"]) if c["PSF"] == "array" else c["PSF"]
    e = A(c["e"])
    pname = c.get("phantom_name")
    ph_ref = None
    if pname:
        # the phantom by itself (its documented generator), drawn while the caller's global stream is in another state
        np.random.seed(987)
        ph_ref = np.asarray(getattr(cuqi.data, pname)(size=dim), dtype=float)
    np.random.seed(c.get("gseed", 0))
    state_before = np.random.get_state()[1].copy()
    try:
        with scripted_noise_ctx(e):
            refused, tp = refuses(lambda: cuqi.testproblem.Deconvolution2D(dim=dim, PSF=PSF, PSF_param=c["PSF_param"], PSF_size=c["PSF_size"], BC=c["BC"],
                                                                           phantom=(pname if pname else A(c["phantom"])), noise_type=c["noise_type"],
                                                                           noise_std=c["noise_std"]))
        # (the noise went through the scripted stream: the caller's real global stream must be where it was)
        require(np.array_equal(np.random.get_state()[1], state_before), "constructing Deconvolution2D re-seeded or advanced the caller's global random "
                "stream by something other than its noise draws", phantom=str(pname))
    finally:
        np.random.seed()
    if refused:
        require(c["noise_type"] != "gaussian", f"constructing Deconvolution2D failed: {tp}")
        rec.count("construction_refused_zero_variance")
        return
    P = np.asarray(tp.Miscellaneous["PSF"], dtype=float)
    if c["PSF"] == "array":
        require(maxdiff(P, A(c["PSF_array"])) == 0, "the stated PSF is not the array that was passed")
    else:
        require(P.shape == (c["PSF_size"], c["PSF_size"]) and abs(P.sum() - 1) < 1e-12 and np.all(P >= 0), "named PSF is not a normalised kernel of the stated size")
        Pref = psf2d(c["PSF"].lower(), c["PSF_size"], c["PSF_param"])
        require(P.shape == Pref.shape and maxdiff(P, Pref) <= 1e-12, f"the {c['PSF']} PSF is not the kernel of its definition (size {c['PSF_size']}, parameter {c['PSF_param']})",
                got=P, want=Pref)
        if c["PSF_size"] % 2 == 1:
            # Gauss / Moffat / defocus kernels are even functions of the offset from the centre pixel
            ctr = c["PSF_size"] // 2
            require(maxdiff(P, P[::-1, ::-1]) <= 1e-14 and P[ctr, ctr] == P.max(),
                    "named PSF of odd size is not symmetric about / maximal at its centre pixel", P=P)
    bc = c["BC"].lower()
    x = A(c["x"])
    want = conv2_direct(x.reshape(dim, dim), P, bc).ravel()
    require(close(tp.model.forward(x), want, 1e-9),
            f"Deconvolution2D forward model is not the convolution of the boundary-extended image with the stated PSF (BC={c['BC']}, size={c['PSF_size']})",
            got=np.asarray(tp.model.forward(x)), want=want)
    check_components(tp, rec, "Deconvolution2D")
    xe = np.asarray(tp.exactSolution, dtype=float)
    if pname:
        require(xe.shape == (dim * dim,) and maxdiff(xe, ph_ref.ravel()) <= 1e-12, f"exactSolution is not the '{pname}' phantom of the library's collection")
    else:
        require(maxdiff(xe, A(c["phantom"]).ravel()) <= 1e-12, "exactSolution is not the phantom that was passed")
    ye = conv2_direct(xe.reshape(dim, dim), P, bc).ravel()
    require(close(tp.exactData, ye, 1e-9), "exactData is not the documented operator applied to the exact solution")
    sig = c["noise_std"] if c["noise_type"] == "gaussian" else np.abs(ye) * c["noise_std"]
    if np.min(np.asarray(sig)) <= 1e-4 * np.max(np.asarray(sig)):
        rec.inconc("vanishing_noise_scale")   # see Deconvolution1D: exact data that vanish up to FFT round-off
        return
    require(close(np.asarray(tp.data) - np.asarray(tp.exactData), sig * e, 1e-9), "data - exactData is not noise of the stated type/level")
    wantl = gauss_loglik(np.asarray(tp.data) - want, sig) + float(tp.prior.logd(x))
    require(close(float(tp.posterior.logd(x)), wantl, 1e-9), "posterior log-density is not Gaussian log-likelihood plus log-prior")
    # using the problem (adjoint, gradient) must not change it: same forward values, same log-density, same PSF afterwards
    P_before = P.copy()
    for use, call in (("its adjoint was applied", lambda: tp.model.adjoint(np.asarray(tp.data, dtype=float))),
                      ("the posterior gradient was evaluated", lambda: tp.posterior.gradient(x.copy())),
                      ("its adjoint was applied again", lambda: tp.model.adjoint(np.asarray(tp.data, dtype=float)))):
        refuses(call)      # (checked after every single call: an in-place flip would cancel after two)
        require(close(tp.model.forward(x), want, 1e-9), f"Deconvolution2D: the forward model changed after {use}")
        require(close(float(tp.posterior.logd(x)), wantl, 1e-9), f"Deconvolution2D: the posterior log-density of the same point changed after {use}")
        require(maxdiff(np.asarray(tp.Miscellaneous["PSF"], dtype=float), P_before) == 0, f"Deconvolution2D: the stated PSF changed after {use}")
        if c["PSF"] == "array":
            require(maxdiff(np.asarray(PSF, dtype=float), A(c["PSF_array"])) == 0, f"Deconvolution2D altered the PSF array that was passed in after {use}")


# ----------------------------------------------------------------------------- PDE problems

@st.composite
def pde_cases(draw, tier="quick"):
    which = draw(st.sampled_from(["Heat1D", "Poisson1D"]))
    dim = draw(st.integers(8, 12 if tier == "quick" else 16))
    ft = draw(st.sampled_from([None, "KL", "Step", "geometry_object"]))
    c = {"which": which, "dim": dim, "endpoint": draw(st.sampled_from([1.0, 2.0])), "field_type": ft,
         "map": draw(st.sampled_from([None, "exp"])), "SNR": draw(st.sampled_from([50, 200, 1000])),
         "obs_map": draw(st.sampled_from([None, "upper_half", "every_second"])),
         "custom_exact": draw(st.booleans()), "e": draw(gen.vec(dim, -2, 2)), "p": draw(gen.vec(dim, -0.5, 0.5)),
         "max_time": draw(st.sampled_from([0.02, 0.05])), "kappa_pow": draw(st.sampled_from([0, 0, -6, -9]))}
    if ft == "KL":
        c["field_params"] = {"num_modes": draw(st.integers(2, dim - 1))}
    elif ft == "Step":
        c["field_params"] = {"n_steps": draw(st.integers(2, 4))}
    c["exact"] = draw(gen.vec(dim, 0.2, 1.5))
    return c


OBSMAPS = {None: None, "upper_half": lambda g: g[np.where(g > 0.5 * g[-1])], "every_second": lambda g: g[::2]}


def run_pde(c, rec):
    import cuqi
    which, dim, L = c["which"], c["dim"], c["endpoint"]
    tags = {"problem": which, "field": str(c["field_type"]), "map": str(c["map"]), "obs": str(c["obs_map"]), "custom_exact": c["custom_exact"]}
    if rec.classify(tags, c["map"] is not None or c["obs_map"] is not None or c["field_type"] is not None):
        return
    ftype = c["field_type"]
    if ftype == "geometry_object":
        # the field type may be given as a geometry object on the problem's own domain grid (combined with a map or not)
        kw0 = dict(dim=dim, endpoint=L)
        if which == "Heat1D":
            kw0["max_time"] = c["max_time"]
        np.random.seed(0)
        g0 = np.asarray(getattr(cuqi.testproblem, which)(**kw0).model.domain_geometry.grid, dtype=float)
        ftype = cuqi.geometry.Continuous1D(g0)
    kw = dict(dim=dim, endpoint=L, field_type=ftype, field_params=c.get("field_params"), SNR=c["SNR"],
              observation_grid_map=OBSMAPS[c["obs_map"]])
    if c["map"] == "exp":
        kw.update(map=lambda f: np.exp(f), imap=lambda g: np.log(g))
    if c["custom_exact"]:
        kw["exactSolution"] = A(c["exact"]) * (10.0 ** c.get("kappa_pow", 0) if which == "Poisson1D" else 1.0)
    if which == "Heat1D":
        kw["max_time"] = c["max_time"]
    e = A(c["e"])
    with scripted_noise_ctx(list(e) + [0.0] * 4):
        refused, tp = refuses(lambda: getattr(cuqi.testproblem, which)(**kw))
    if refused:
        # the only refusal that is not a defect: scipy's spline interpolation (observation off the solution grid) needs more
        # nodes / time levels than a very small problem has
        msg = f"{type(tp).__name__}: {tp}"
        require("regrid_smth" in msg or "fpchec" in msg or "must be greater than" in msg or "m >" in msg,
                f"constructing {which} with documented options failed: {msg[:200]}")
        rec.count("construction_refused_spline_too_few_points")
        return
    model = tp.model
    check_components(tp, rec, which)
    fe = np.asarray(tp.exactSolution.funvals, dtype=float)
    if c["custom_exact"]:
        require(maxdiff(fe, A(c["exact"]) * (10.0 ** c.get("kappa_pow", 0) if which == "Poisson1D" else 1.0)) == 0, "exactSolution is not the function that was passed")
    # reference solution map on function values
    if which == "Poisson1D":
        N = dim - 1
        dx = L / N
        D = np.zeros((N + 1, N))
        for i in range(N):
            D[i, i] += 1.0 / dx
            D[i + 1, i] += -1.0 / dx
        grid_sol = np.linspace(dx, L, N, endpoint=False)
        src = 10 * np.exp(-((grid_sol - 0.5) ** 2) / 0.02)

        def solve(kappa):
            return np.linalg.solve(D.T @ np.diag(kappa) @ D, src)
    else:
        N = dim
        dx = L / (N + 1)
        dt_approx = (5 / 11) * dx ** 2
        nsteps = int(c["max_time"] / dt_approx)
        times = np.linspace(0, c["max_time"], nsteps + 1)
        Dxx = (np.diag(-2 * np.ones(N)) + np.diag(np.ones(N - 1), 1) + np.diag(np.ones(N - 1), -1)) / dx ** 2
        grid_sol = np.linspace(dx, L, N, endpoint=False)

        def solve(u0):
            u = np.array(u0, dtype=float)
            for k in range(nsteps):
                u = u + (times[k + 1] - times[k]) * (Dxx @ u)
            return u
    gobs = np.asarray(model.range_geometry.grid, dtype=float)
    nodes_ref = grid_sol.copy()                              # the solution nodes of the documented discretisation on [0, endpoint]
    grid_sol = np.asarray(model.pde.grid_sol, dtype=float)  # node labels used by the problem for observation
    require(len(grid_sol) == len(nodes_ref) and close(grid_sol, nodes_ref, 1e-12),
            f"{which}: the solution grid the problem reports is not the grid of its discretisation on [0, endpoint]", got=grid_sol, want=nodes_ref)
    want_obs = nodes_ref if OBSMAPS[c["obs_map"]] is None else np.asarray(OBSMAPS[c["obs_map"]](nodes_ref), dtype=float)
    require(len(gobs) == len(want_obs) and close(gobs, want_obs, 1e-12),
            f"{which}: the range geometry is not placed on the observation nodes (observation_grid_map applied to the solution nodes)", got=gobs, want=want_obs)

    def observe(u):
        if len(gobs) == len(grid_sol) and np.allclose(gobs, grid_sol):
            return u
        idx = [int(np.argmin(np.abs(grid_sol - g))) for g in gobs]
        require(np.allclose(grid_sol[idx], gobs), "harness: observation grid is not a sub-grid")
        return u[idx]
    ye = observe(solve(fe))
    tol = 1e-6 if (which == "Heat1D" and c["obs_map"] is not None) else 1e-8
    require(close(tp.exactData, ye, tol), f"{which}: exactData is not the discretised PDE solution map applied to the exact solution, observed on the observation grid",
            got=np.asarray(tp.exactData), want=ye)
    # forward on parameters goes through the domain geometry
    p = A(c["p"])[: model.domain_dim]
    if c["field_type"] in (None, "geometry_object") and c["map"] is None and which == "Poisson1D":
        # conductivity must be positive; it may be given in other units (1e-6, 1e-9 of the usual ones): u(c kappa) = u(kappa) / c
        p = (np.abs(p) + 0.5) * 10.0 ** c.get("kappa_pow", 0)
    # the documented field representation, composed by the harness: the expansion named by field_type on the domain grid, then the map
    dgrid = np.asarray(model.domain_geometry.grid, dtype=float)
    if c["field_type"] == "KL":
        base_p2f = cuqi.geometry.KLExpansion(dgrid, **c["field_params"]).par2fun
    elif c["field_type"] == "Step":
        base_p2f = cuqi.geometry.StepExpansion(dgrid, **c["field_params"]).par2fun
    else:
        base_p2f = lambda q: np.asarray(q, dtype=float)
    fp = np.asarray(base_p2f(p.copy()), dtype=float)
    if c["map"] == "exp":
        fp = np.exp(fp)
    require(close(np.asarray(model.domain_geometry.par2fun(p.copy()), dtype=float), fp, 1e-12),
            f"{which}: the domain geometry is not the documented field representation (field_type, then map)",
            field_type=str(c["field_type"]), map=str(c["map"]))
    degenerate = which == "Poisson1D" and (np.any(fp <= 0) or np.min(fp) < 1e-6 * np.max(fp))
    if degenerate:
        # conductivity not positive, or vanishing on part of the domain (6.7e-193 seen): the discrete operator is singular to
        # working precision and two correct solvers disagree
        rec.inconc("non_positive_or_degenerate_conductivity")
    else:
        require(close(model.forward(p), observe(solve(fp)), tol), f"{which}: model.forward(p) is not the PDE solution map of par2fun(p)")
    # object life cycle: a deep copy of the problem is the same problem - its model applied to its own (function-valued) exact
    # solution gives the exact data, and so does the original's model applied to the copy's exact solution
    import copy as _copy
    refused, tp2 = refuses(lambda: _copy.deepcopy(tp))
    if not refused:
        for label, mdl, xs in (("copy's model on the copy's exactSolution", tp2.model, tp2.exactSolution),
                               ("original's model on the copy's exactSolution", tp.model, tp2.exactSolution),
                               ("copy's model on the original's exactSolution", tp2.model, tp.exactSolution)):
            r_, yy = refuses(lambda: np.asarray(mdl.forward(xs), dtype=float))
            require(not r_ and close(yy, ye, tol), f"{which}: after copy.deepcopy of the problem, the {label} is not the exact data", got=None if r_ else yy, want=ye)
        rec.count("deepcopy_checked")
    m = len(ye)
    sigma = np.linalg.norm(ye) / c["SNR"]
    require(close(np.asarray(tp.data) - np.asarray(tp.exactData), sigma * e[:m], 1e-7),
            f"{which}: data - exactData is not white noise of level ||exactData||/SNR", got=np.asarray(tp.data) - np.asarray(tp.exactData), want=sigma * e[:m])
    if not degenerate:
        want = gauss_loglik(np.asarray(tp.data) - observe(solve(fp)), sigma) + float(tp.prior.logd(p))
        require(close(float(tp.posterior.logd(p)), want, 1e-6), f"{which}: posterior log-density is not Gaussian log-likelihood plus log-prior",
                got=float(tp.posterior.logd(p)), want=want)


# ----------------------------------------------------------------------------- Abel / WangCubic

@st.composite
def misc_cases(draw, tier="quick"):
    which = draw(st.sampled_from(["Abel1D", "WangCubic"]))
    if which == "Abel1D":
        dim = draw(st.integers(4, 14))
        return {"which": which, "dim": dim, "endpoint": draw(st.sampled_from([1.0, 3.0])), "SNR": draw(st.sampled_from([20, 100])),
                "e": draw(gen.vec(dim, -2, 2)), "x": draw(gen.vec(dim, -2, 2))}
    return {"which": which, "noise_std": draw(st.sampled_from([1.0, 0.3, 2.0])), "data": draw(gen.fl(-3, 3)), "x": draw(gen.vec(2, -2, 2)),
            "d": draw(gen.fl(-2, 2)), "pmean": draw(gen.vec(2, -1, 1)), "custom_prior": draw(st.booleans())}


def run_misc(c, rec):
    import cuqi
    if rec.classify({"problem": c["which"]}, True):
        return
    if c["which"] == "Abel1D":
        N, L = c["dim"], c["endpoint"]
        h = L / N
        t = np.linspace(h / 2, L - h / 2, N)
        s = t + h / 2
        Aref = np.zeros((N, N))
        for i in range(N):
            for j in range(N):
                if t[j] < s[i]:
                    Aref[i, j] = h / np.sqrt(abs(s[i] - t[j]))
        e = A(c["e"])
        with scripted_noise_ctx(e):
            tp = must(lambda: cuqi.testproblem.Abel1D(dim=N, endpoint=L, SNR=c["SNR"]), "constructing Abel1D")
        x = A(c["x"])
        require(close(tp.model.forward(x), Aref @ x, 1e-12), "Abel1D forward model is not the documented quadrature of the Abel integral")
        check_components(tp, rec, "Abel1D")
        xe = np.asarray(tp.exactSolution, dtype=float)
        require(close(xe, np.sin(t * np.pi) * np.exp(-2 * t), 1e-12), "Abel1D exact solution differs from the stated signal")
        require(close(tp.exactData, Aref @ xe, 1e-12), "Abel1D exactData is not model(exactSolution)")
        sigma = np.linalg.norm(Aref @ xe) / c["SNR"]
        require(close(np.asarray(tp.data) - np.asarray(tp.exactData), sigma * e, 1e-9), "Abel1D data - exactData is not white noise of level ||y||/SNR")
        want = gauss_loglik(np.asarray(tp.data) - Aref @ x, sigma) + float(tp.prior.logd(x))
        require(close(float(tp.posterior.logd(x)), want, 1e-9), "Abel1D posterior log-density is not log-likelihood plus log-prior")
        return
    prior = cuqi.distribution.Gaussian(A(c["pmean"]), 0.7, name="x") if c["custom_prior"] else None
    tp = must(lambda: cuqi.testproblem.WangCubic(noise_std=c["noise_std"], prior=prior, data=c["data"]), "constructing WangCubic")
    x = A(c["x"])
    f = 10 * x[1] - 10 * x[0] ** 3 + 5 * x[0] ** 2 + 6 * x[0]
    require(close(np.asarray(tp.model.forward(x)).reshape(-1), [f], 1e-12), "WangCubic forward model is not the documented cubic")
    J = np.array([-30 * x[0] ** 2 + 10 * x[0] + 6, 10.0])
    require(close(np.asarray(tp.model.gradient(np.array([c["d"]]), x)).reshape(-1), c["d"] * J, 1e-12), "WangCubic model gradient is not the documented Jacobian")
    require(tp.model is tp.likelihood.model and np.asarray(tp.data).reshape(-1)[0] == c["data"], "WangCubic components inconsistent")
    pl = float(tp.prior.logd(x))
    if not c["custom_prior"]:
        require(close(pl, float(-0.5 * np.sum((x - np.array([1.0, 0.0])) ** 2) - np.log(2 * np.pi)), 1e-12), "WangCubic default prior is not N((1,0), I)")
    want = gauss_loglik(np.array([c["data"] - f]), c["noise_std"]) + pl
    require(close(float(tp.posterior.logd(x)), want, 1e-10), "WangCubic posterior log-density is not log-likelihood plus log-prior")


SUBCHECKS = [
    SubCheck("C17/deconv1d", run_deconv1d, strategy=deconv1d_cases, n={"quick": 500, "thorough": 10000}, shards={"quick": 4, "thorough": 16}),
    SubCheck("C17/deconv1d_legacy", run_legacy, strategy=legacy_cases, n={"quick": 100, "thorough": 1500}, shards={"quick": 2, "thorough": 4}),
    SubCheck("C17/deconv2d", run_deconv2d, strategy=deconv2d_cases, n={"quick": 600, "thorough": 4000}, shards={"quick": 8, "thorough": 16}),
    SubCheck("C17/pde_problems", run_pde, strategy=pde_cases, n={"quick": 800, "thorough": 12000}, shards={"quick": 8, "thorough": 16}),
    SubCheck("C17/abel_wang", run_misc, strategy=misc_cases, n={"quick": 200, "thorough": 3000}, shards={"quick": 2, "thorough": 8}),
]
