"""C18 - PDE models solve the discretised equations given and observe them consistently."""
import numpy as np
from hypothesis import strategies as st

from vlib.core import SubCheck, Violation, require, close, maxdiff, A, must, refuses
from vlib import gen

PROPERTY = "C18"
RULE = ("Hypothesis draws affine-in-parameter PDE forms A(theta[,t]), b(theta[,t]), u0(theta) (diagonally dominant, dense or "
        "sparse, time dependent operator and source), the linear solver (default, numpy solve, spsolve, cg with info, lstsq "
        "with a 4-tuple, user function with extra returns) and kwargs, non-uniform increasing time grids (2..9 levels), both "
        "Euler methods, observation grids (equal / node subset / off-node), observation times (final / all / explicit) and "
        "observation maps. Non-trivial: the operator depends on the parameter and (time grid non-uniform or observation "
        "grid != solution grid or an observation map is set); distinct = distinct generated case.")
ASSUMPTIONS = ["the stated interpolants are scipy interp1d(kind='quadratic') and RectBivariateSpline (defaults); the reference "
               "calls the same scipy routines on the independently computed solution",
               "linear-solve residual tolerance 1e-8 relative (cg run with rtol 1e-12)"]


# ----------------------------------------------------------------------------- steady state

@st.composite
def steady_cases(draw, tier="quick"):
    n = draw(st.integers(3, 7 if tier == "quick" else 12))
    k = draw(st.integers(1, 3))
    c = {"n": n, "k": k,
         "A0": draw(gen.mat(n, n, -1, 1)), "Ak": [draw(gen.mat(n, n, -0.3, 0.3)) for _ in range(k)],
         "b0": draw(gen.vec(n)), "B": draw(gen.mat(n, k)), "theta": draw(gen.vec(k, -1, 1)),
         "solver": draw(st.sampled_from(["default", "np_solve", "spsolve", "cg", "lstsq", "user"])),
         "grid": sorted(set(draw(st.lists(st.integers(0, 40), min_size=n, max_size=n, unique=True)))),
         "obs": draw(st.sampled_from(["equal", "none", "subset", "offnode", "samelen"])),
         "obs_frac": draw(st.lists(st.floats(0.02, 0.98), min_size=1, max_size=5)),
         "obs_idx": draw(st.lists(st.integers(0, n - 1), min_size=1, max_size=n, unique=True)),
         "obs_unsorted": draw(st.booleans()),
         # a sensor listed twice (steady-state problems, unsorted listing): the observation has one entry per listed node
         "obs_dup": draw(st.sampled_from([False, False, True])),
         "grid_affine": draw(st.sampled_from(["plain", "plain", "tiny", "far"])),
         "omap": draw(st.sampled_from(["none", "square", "first2", "affine"])),
         "direction": draw(gen.vec(12))}
    return c


def grid_of(c):
    """the solution grid: integer node positions, optionally in other units (x 1e-7) or far from the origin (+ 5e5)"""
    sc, org = {"plain": (1.0, 0.0), "tiny": (1e-7, 0.0), "far": (1.0, 5.0e5)}[c.get("grid_affine", "plain")]
    return org + sc * np.array(c["grid"], dtype=float)


def steady_parts(c):
    n = c["n"]
    A0 = A(c["A0"])
    Ak = [A(a) for a in c["Ak"]]
    if c["solver"] == "cg":  # symmetric positive definite operator for cg
        A0 = (A0 + A0.T) / 2
        Ak = [(a + a.T) / 2 for a in Ak]
    dom = np.sum(np.abs(A0)) + sum(np.sum(np.abs(a)) for a in Ak) + 1.0
    A0 = A0 + dom * np.eye(n)
    b0, B = A(c["b0"]), A(c["B"])

    def Aof(th):
        return A0 + sum(t * a for t, a in zip(th, Ak))

    def bof(th):
        return b0 + B @ th
    return Aof, bof, Ak, B


OMAPS = {"none": None, "square": lambda u: u ** 2, "first2": lambda u: u[:2], "affine": lambda u: 3 * u - 1}


def make_solver(name):
    import scipy.sparse.linalg as spl
    import scipy.sparse as sp
    if name == "default":
        return None, None
    if name == "np_solve":
        return np.linalg.solve, None
    if name == "spsolve":
        return (lambda Am, b: spl.spsolve(sp.csc_matrix(Am), b)), None
    if name == "cg":
        return spl.cg, {"rtol": 1e-13, "maxiter": 5000}
    if name == "lstsq":
        return np.linalg.lstsq, {"rcond": None}

    def user(Am, b, scale=1.0):
        return np.linalg.solve(Am, b) * scale, "extra-info", 42
    return user, {"scale": 1.0}


def obs_index_list(c):
    idx = list(c["obs_idx"]) if c.get("obs_unsorted") else sorted(c["obs_idx"])
    if c.get("obs_unsorted") and c.get("obs_dup"):
        idx = idx + [idx[0]]
    return idx


def obs_grid(c, grid):
    if c["obs"] == "none":
        return None
    if c["obs"] == "equal":
        return grid.copy()
    if c["obs"] == "subset":
        if c.get("obs_unsorted"):
            return grid[obs_index_list(c)]      # observation nodes listed in the user's own order (steady-state problems only)
        return grid[sorted(c["obs_idx"])]
    if c["obs"] == "samelen":
        # same number of nodes, first and last coincide with the solution grid, interior nodes moved half a cell
        g = grid.astype(float).copy()
        g[1:-1] = 0.5 * (grid[1:-1] + grid[2:])
        return g
    return np.array(sorted(set(grid[0] + f * (grid[-1] - grid[0]) for f in c["obs_frac"])))


def run_steady(c, rec):
    import cuqi
    from scipy.interpolate import interp1d
    n = c["n"]
    Aof, bof, _, _ = steady_parts(c)
    th = A(c["theta"])
    grid = grid_of(c)
    gobs = obs_grid(c, grid)
    tags = {"pde": "steady", "solver": c["solver"], "obs": c["obs"], "omap": c["omap"]}
    if rec.classify(tags, c["obs"] in ("subset", "offnode", "samelen") or c["omap"] != "none"):
        return
    solver, kw = make_solver(c["solver"])
    kwargs = {"grid_sol": grid, "observation_map": OMAPS[c["omap"]]}
    if gobs is not None:
        kwargs["grid_obs"] = gobs
    if solver is not None:
        kwargs["linalg_solve"] = solver
    if kw is not None:
        kwargs["linalg_solve_kwargs"] = kw
    pde = must(lambda: cuqi.pde.SteadyStateLinearPDE(lambda p: (Aof(p), bof(p)), **kwargs), "constructing the PDE")
    pde.assemble(th)
    u, info = must(lambda: pde.solve(), "solve")
    u = np.asarray(u, dtype=float)
    Am, b = Aof(th), bof(th)
    res = np.linalg.norm(Am @ u - b)
    require(u.shape == (n,) and res <= 1e-8 * (1 + np.linalg.norm(b)), "returned solution does not satisfy the assembled system",
            residual=res)
    if c["solver"] in ("default", "np_solve", "spsolve"):
        require(info is None, "info should be None for a solver without extra return values", info=str(info))
    elif c["solver"] == "cg":
        require(isinstance(info, tuple) and len(info) == 1 and info[0] == 0, "cg info not passed through", info=str(info))
    elif c["solver"] == "lstsq":
        require(isinstance(info, tuple) and len(info) == 3, "lstsq extra return values not passed through")
        require(int(info[1]) == n, "lstsq rank not passed through as info")
    else:
        require(info == ("extra-info", 42), "user solver extra return values not passed through", info=str(info))
    # observation
    got = must(lambda: pde.observe(u.copy()), "observe")
    if gobs is None or (len(gobs) == len(grid) and np.all(gobs == grid)):
        want = u
    else:
        want = interp1d(grid, u, kind="quadratic")(gobs)
        if c["obs"] == "subset":  # exact at coinciding nodes, in the order the observation nodes are listed
            idxs = obs_index_list(c)
            require(close(want, u[idxs], 1e-9), "reference interpolant not exact at nodes (harness)")
            want = u[idxs]
    if OMAPS[c["omap"]] is not None:
        want = OMAPS[c["omap"]](want)
    require(np.asarray(got).shape == np.asarray(want).shape and close(got, want, 1e-9),
            "observe() is not restriction/interpolation followed by the observation map", got=got, want=want)
    # a second parameter: the system must be re-assembled, not cached
    th2 = th + 0.5
    pde.assemble(th2)
    u2, _ = pde.solve()
    require(np.linalg.norm(Aof(th2) @ np.asarray(u2) - bof(th2)) <= 1e-8 * (1 + np.linalg.norm(bof(th2))),
            "solution after re-assembly does not satisfy the new system")
    # the solution grid re-assigned on the live object (public setter): observation follows the grids as they are now
    if gobs is not None and len(grid) >= 4:
        grid2 = np.asarray(grid, dtype=float).copy()
        grid2[1:-1] += 0.25 * np.min(np.diff(grid2))      # interior nodes moved, end points (and so the hull) kept
        lo, hi = grid2[0], grid2[-1]
        inside = np.all((np.asarray(gobs) >= lo) & (np.asarray(gobs) <= hi))
        refused, _ = refuses(lambda: setattr(pde, "grid_sol", grid2.copy()))
        if not refused and inside:
            got2 = must(lambda: pde.observe(np.asarray(u2, dtype=float).copy()), "observe after the solution grid was re-assigned")
            want2 = interp1d(grid2, np.asarray(u2, dtype=float), kind="quadratic")(gobs)
            if OMAPS[c["omap"]] is not None:
                want2 = OMAPS[c["omap"]](want2)
            require(np.asarray(got2).shape == np.asarray(want2).shape and close(got2, want2, 1e-9),
                    "after assigning a new solution grid observe() is not interpolation from that grid to the observation grid",
                    got=got2, want=want2)
            rec.count("grid_sol_reassigned")


# ----------------------------------------------------------------------------- time dependent

@st.composite
def time_cases(draw, tier="quick"):
    n = draw(st.integers(4, 6 if tier == "quick" else 9))
    k = draw(st.integers(1, 2))
    nt = draw(st.integers(2, 9))
    dts = draw(st.lists(st.sampled_from([0.01, 0.02, 0.05, 0.013]), min_size=nt - 1, max_size=nt - 1))
    if draw(st.booleans()):
        dts = [dts[0]] * (nt - 1)
    c = {"n": n, "k": k, "G": draw(gen.mat(n, n, -1, 1)), "G1": draw(gen.mat(n, n, -0.5, 0.5)),
         "Dk": [draw(gen.vec(n, 0, 1)) for _ in range(k)],
         "f0": draw(gen.vec(n)), "f1": draw(gen.vec(n)), "F": draw(gen.mat(n, k)),
         "u0": draw(gen.vec(n)), "C": draw(gen.mat(n, k)), "theta": draw(gen.vec(k, -1, 1)),
         "t0": draw(st.sampled_from([0.0, 0.5])), "dts": dts,
         "method": draw(st.sampled_from(["forward_euler", "backward_euler"])),
         "solver": draw(st.sampled_from(["default", "np_solve", "user"])),
         "time_obs": draw(st.sampled_from(["final", "all", "subset", "between"])),
         "tidx": draw(st.lists(st.integers(0, nt - 1), min_size=1, max_size=nt, unique=True)),
         "tfrac": draw(st.lists(st.floats(0.05, 0.95), min_size=1, max_size=3, unique=True)),
         "grid": sorted(set(draw(st.lists(st.integers(0, 40), min_size=n, max_size=n, unique=True)))),
         "int_ic": draw(st.sampled_from([False, False, True])), "second_parameter": draw(st.booleans()),
         "ramp_source": draw(st.sampled_from([False, False, True])),
         # nothing happens at first: zero initial state and a source that is switched on at a later time level
         "late_source": draw(st.sampled_from([False, False, False, True])),
         "grid_affine": draw(st.sampled_from(["plain", "plain", "tiny", "far"])),
         "obs": draw(st.sampled_from(["equal", "none", "subset", "offnode", "samelen"])),
         "obs_frac": draw(st.lists(st.floats(0.02, 0.98), min_size=1, max_size=5)),
         "obs_idx": draw(st.lists(st.integers(0, n - 1), min_size=1, max_size=n, unique=True)),
         "omap": draw(st.sampled_from(["none", "square", "affine"]))}
    return c


def time_parts(c):
    n = c["n"]
    G, G1 = A(c["G"]), A(c["G1"])
    L0 = -(G @ G.T + np.eye(n))
    L1 = -(G1 @ G1.T)
    Dk = [np.diag(A(d)) for d in c["Dk"]]
    f0, f1, F, u0, C = A(c["f0"]), A(c["f1"]), A(c["F"]), A(c["u0"]), A(c["C"])

    def Aof(th, t):
        return L0 + t * L1 - sum(abs(ti) * d for ti, d in zip(th, Dk))

    t_switch = c["t0"] + float(np.sum(c["dts"][: max(1, len(c["dts"]) // 2)]))

    def fof(th, t):
        if c.get("late_source"):
            return (f0 + t * f1 + F @ th) if t > t_switch + 1e-12 else np.zeros(n)
        if c.get("ramp_source"):
            return (t - c["t0"]) * (f1 + F @ th)     # a source that is exactly zero at the first time level and switches on afterwards
        return f0 + t * f1 + F @ th

    def ic(th, t=0.0):
        # the form returns (operator, source, initial condition) for a time t; the initial condition of the run is the one
        # the form gives at the first time level
        if c.get("late_source"):
            return np.zeros(n)
        if c.get("int_ic"):
            return np.round(3 * u0).astype(int)      # an integer-typed initial profile (step heights, counts)
        return (u0 + C @ th) * (1.0 + 0.5 * t)
    return Aof, fof, ic


def run_time(c, rec):
    import cuqi
    from scipy.interpolate import RectBivariateSpline
    n = c["n"]
    Aof, fof, ic = time_parts(c)
    th = A(c["theta"])
    times = c["t0"] + np.concatenate([[0.0], np.cumsum(c["dts"])])
    nt = len(times)
    grid = grid_of(c)
    gobs = obs_grid(c, grid)
    uniform = len(set(c["dts"])) == 1
    if c["time_obs"] == "final":
        tobs, tobs_arr = "final", times[-1:]
    elif c["time_obs"] == "all":
        tobs, tobs_arr = "all", times
    elif c["time_obs"] == "subset":
        tobs_arr = times[sorted(c["tidx"])]
        tobs = tobs_arr
    else:
        tobs_arr = np.array(sorted(times[0] + f * (times[-1] - times[0]) for f in c["tfrac"]))
        tobs = tobs_arr
    tags = {"pde": "time", "method": c["method"], "solver": c["solver"], "obs": c["obs"], "time_obs": c["time_obs"],
            "omap": c["omap"], "uniform_dt": uniform, "int_ic": bool(c.get("int_ic")), "second_parameter": bool(c.get("second_parameter"))}
    if rec.classify(tags, (not uniform) or c["obs"] in ("subset", "offnode") or c["omap"] != "none"):
        return
    solver, kw = make_solver(c["solver"])
    kwargs = {"grid_sol": grid, "observation_map": OMAPS[c["omap"]], "method": c["method"], "time_obs": tobs}
    if gobs is not None:
        kwargs["grid_obs"] = gobs
    if solver is not None:
        kwargs["linalg_solve"] = solver
    if kw is not None:
        kwargs["linalg_solve_kwargs"] = kw
    calls = []

    def form(p, t):
        calls.append(float(t))
        return Aof(p, t), fof(p, t), ic(p, t)
    pde = must(lambda: cuqi.pde.TimeDependentLinearPDE(form, times, **kwargs), "constructing the PDE")
    if c.get("second_parameter"):
        # the same PDE object is first assembled and solved for another parameter (as a forward model is, call after call)
        pde.assemble(th * 0.5 - 0.3)
        must(lambda: pde.solve(), "solve (first parameter)")
    pde.assemble(th)
    U, info = must(lambda: pde.solve(), "solve")
    U = np.asarray(U, dtype=float)
    require(U.shape == (n, nt), "solution must have one column per time level", shape=U.shape)
    require(close(U[:, 0], ic(th, times[0]), 1e-12), "level 0 is not the initial condition the form gives at the first time level")
    for k in range(nt - 1):
        dt = times[k + 1] - times[k]
        if c["method"] == "forward_euler":
            want = U[:, k] + dt * (Aof(th, times[k]) @ U[:, k] + fof(th, times[k]))
            err = np.linalg.norm(U[:, k + 1] - want)
        else:
            lhs = (np.eye(n) - dt * Aof(th, times[k + 1])) @ U[:, k + 1]
            err = np.linalg.norm(lhs - (U[:, k] + dt * fof(th, times[k + 1])))
        require(err <= 1e-9 * (1 + np.linalg.norm(U[:, k + 1]) + np.linalg.norm(U[:, k])),
                f"time level {k + 1} does not satisfy the {c['method']} recurrence with the operator/source of that step",
                level=k + 1, err=err, dt=dt)
    if c["method"] == "backward_euler" and c["solver"] == "user":
        require(info == ("extra-info", 42), "user solver extra return values not passed through")
    # observation
    refused, got = refuses(lambda: pde.observe(U.copy()))
    grids_equal = gobs is None or (len(gobs) == len(grid) and np.all(gobs == grid))
    if grids_equal and c["time_obs"] == "final":
        require(not refused, "observe at the final time on the solution grid must not fail", err=str(got))
        want = U[:, -1]
    else:
        if refused:
            # spline interpolation needs >= 4 nodes and >= 4 time levels: refusal is allowed
            rec.count("observe_refused")
            return
        go = grid if gobs is None else gobs
        on_nodes = c["obs"] in ("equal", "none", "subset") and c["time_obs"] in ("final", "all", "subset")
        if on_nodes:
            # observation nodes/times coincide with solution nodes/times: exact restriction, whatever interpolant is used
            ridx = list(range(n)) if c["obs"] != "subset" else sorted(c["obs_idx"])
            cidx = {"final": [nt - 1], "all": list(range(nt)), "subset": sorted(c["tidx"])}[c["time_obs"]]
            want = U[np.ix_(ridx, cidx)]
        else:
            if n < 4 or nt < 4:
                rec.inconc("reference_spline_needs_4_nodes_and_4_levels")
                return
            want = RectBivariateSpline(grid, times, U)(go, tobs_arr)
    if OMAPS[c["omap"]] is not None:
        want = OMAPS[c["omap"]](want)
    if len(tobs_arr) == 1:
        want = np.asarray(want).squeeze()
    require(np.asarray(got).shape == np.asarray(want).shape and close(got, want, 1e-8),
            "observe() is not restriction/interpolation at the observation grid and times followed by the observation map",
            got=got, want=want)


# ----------------------------------------------------------------------------- PDEModel

def run_model(c, rec):
    import cuqi
    n, k = c["n"], c["k"]
    Aof, bof, Ak, B = steady_parts(c)
    th = A(c["theta"])
    grid = grid_of(c)
    gobs = obs_grid(c, grid) if c["obs"] != "offnode" or n >= 3 else None
    omap = c["omap"] if c["omap"] in ("none", "affine") else "none"
    variant = ["jacobian", "gradient", "none"][c["direction"][0] > 1 and 1 or (c["direction"][0] < -1 and 2 or 0)]
    tags = {"pde": "model", "variant": variant, "obs": c["obs"], "omap": omap, "solver": c["solver"]}
    if rec.classify(tags, c["obs"] in ("subset", "offnode") or omap != "none"):
        return
    solver, kw = make_solver(c["solver"])
    kwargs = {"grid_sol": grid, "observation_map": OMAPS[omap]}
    if gobs is not None:
        kwargs["grid_obs"] = gobs
    if solver is not None:
        kwargs["linalg_solve"] = solver
    if kw is not None:
        kwargs["linalg_solve_kwargs"] = kw

    def obs_of(pde_obj, p):
        pde_obj.assemble(p)
        u, _ = pde_obj.solve()
        return np.asarray(pde_obj.observe(u), dtype=float)

    class MyPDE(cuqi.pde.SteadyStateLinearPDE):
        pass

    fresh = cuqi.pde.SteadyStateLinearPDE(lambda p: (Aof(p), bof(p)), **kwargs)
    m_out = len(obs_of(fresh, th))

    def jac_fd(p):
        J = np.zeros((m_out, k))
        h = 1e-6
        for i in range(k):
            e = np.zeros(k)
            e[i] = h
            J[:, i] = (obs_of(fresh, p + e) - obs_of(fresh, p - e)) / (2 * h)
        return J

    def jac_exact(p):
        # u = A^{-1} b ; du/dtheta_i = A^{-1}(B[:,i] - A_i u); observation is linear (restriction/quadratic interp, affine map)
        u = np.linalg.solve(Aof(p), bof(p))
        dU = np.stack([np.linalg.solve(Aof(p), B[:, i] - Ak[i] @ u) for i in range(k)], axis=1)
        cols = []
        for i in range(k):
            o1 = np.asarray(fresh.observe(u + dU[:, i]), dtype=float)
            o0 = np.asarray(fresh.observe(u), dtype=float)
            cols.append(o1 - o0)
        return np.stack(cols, axis=1)

    if variant == "jacobian":
        MyPDE.jacobian_wrt_parameter = lambda self, wrt: jac_exact(np.asarray(wrt, dtype=float))
    elif variant == "gradient":
        MyPDE.gradient_wrt_parameter = lambda self, direction, wrt: np.asarray(direction) @ jac_exact(np.asarray(wrt, dtype=float))
    pde = MyPDE(lambda p: (Aof(p), bof(p)), **kwargs)
    model = must(lambda: cuqi.model.PDEModel(pde, range_geometry=cuqi.geometry.Continuous1D(m_out),
                                             domain_geometry=cuqi.geometry.Discrete(k)), "constructing PDEModel")
    y = must(lambda: np.asarray(model.forward(th), dtype=float), "PDEModel.forward")
    want = obs_of(fresh, th)
    require(y.shape == want.shape and close(y, want, 1e-10), "PDEModel.forward is not assemble -> solve -> observe", got=y, want=want)
    ya = model.forward(cuqi.array.CUQIarray(th.copy(), geometry=model.domain_geometry))
    require(isinstance(ya, cuqi.array.CUQIarray) and close(np.asarray(ya), want, 1e-10), "PDEModel.forward on CUQIarray differs")
    d = A(c["direction"])[:m_out] if m_out <= 12 else np.ones(m_out)
    refused, g = refuses(lambda: model.gradient(d, th))
    if variant == "none":
        require(refused, "PDEModel.gradient returned a value although the PDE offers no derivative")
        return
    require(not refused, "PDEModel.gradient failed although the PDE offers a derivative", err=str(g))
    J = jac_exact(th)
    require(close(np.asarray(g, dtype=float), d @ J, 1e-9), "PDEModel.gradient != direction @ Jacobian", got=g, want=d @ J)
    Jfd = jac_fd(th)
    require(close(d @ J, d @ Jfd, 1e-5), "analytic Jacobian disagrees with finite differences of forward (harness)")
    require(close(np.asarray(g, dtype=float), d @ Jfd, 1e-5), "PDEModel.gradient is not the derivative of forward")


SUBCHECKS = [
    SubCheck("C18/steady", run_steady, strategy=steady_cases, n={"quick": 500, "thorough": 10000}, shards={"quick": 4, "thorough": 16}),
    SubCheck("C18/time", run_time, strategy=time_cases, n={"quick": 500, "thorough": 10000}, shards={"quick": 4, "thorough": 16}),
    SubCheck("C18/pdemodel", run_model, strategy=steady_cases, n={"quick": 300, "thorough": 6000}, shards={"quick": 4, "thorough": 16}),
]
