"""C12 - forward models act identically on every representation of their input."""
import numpy as np
from hypothesis import strategies as st

from vlib.core import SubCheck, Violation, require, close, maxdiff, A, must, refuses
from vlib import gen

PROPERTY = "C12"
RULE = ("Hypothesis draws the model kind (Model+jacobian, Model+direction-Jacobian gradient, Model without derivative, "
        "LinearModel from matrix or from a function pair), domain geometry (identity-like 1D, Image2D C/F, Continuous2D, "
        "mapped exp/cube with/without inverse, KL, Step, user geometry with its own gradient), range geometry "
        "(identity-like, Image2D, mapped affine), the operator coefficients, parameter vectors, directions and a batch "
        "size. Non-trivial: non-identity geometry or non-linear model, evaluated on a representation other than a bare "
        "parameter vector; distinct = distinct generated case.")
ASSUMPTIONS = ["reference output = range.fun2par(F(domain.par2fun(p))) computed by the harness from the raw callable",
               "reference gradient = central-difference Jacobian of p -> forward(p) (step 1e-6, tolerance 1e-5 relative)"]


_USER_CLASSES = {}     # the user's geometry classes are defined once (two geometries of one class with equal attributes are equal)


def user_geometry(n, raw=False):
    import cuqi
    if not _USER_CLASSES:
        class UserGeomRaw(cuqi.geometry.Continuous1D):
            """the same geometry written as plain array expressions (whatever array type comes in goes through the arithmetic)"""

            def par2fun(self, p):
                return np.exp(0.5 * p)

            def fun2par(self, f):
                return 2.0 * np.log(f)

            def gradient(self, direction, wrt):
                return direction * 0.5 * np.exp(0.5 * wrt)

        class UserGeom(cuqi.geometry.Continuous1D):
            """a user-defined geometry that supplies the derivative of its own par2fun"""

            def par2fun(self, p):
                return np.exp(0.5 * np.asarray(p))

            def fun2par(self, f):
                return 2.0 * np.log(np.asarray(f))

            def gradient(self, direction, wrt):
                return np.asarray(direction) * 0.5 * np.exp(0.5 * np.asarray(wrt))
        _USER_CLASSES.update(raw=UserGeomRaw, plain=UserGeom)
    return _USER_CLASSES["raw" if raw else "plain"](n)


def user_mapped_geometry(spec):
    """a user-defined mapped geometry (cube of an expansion) that supplies the derivative of its own par2fun"""
    import cuqi
    base = gen.make_geometry(spec["base"])
    E = np.column_stack([np.asarray(base.par2fun(e), dtype=float) for e in np.eye(gen.geom_par_dim(spec["base"]))])

    class UserMapped(cuqi.geometry.MappedGeometry):
        def gradient(self, direction, wrt):
            return E.T @ (np.asarray(direction) * 3.0 * (E @ np.asarray(wrt)) ** 2)
    m, im, _ = gen.MAPS["cube"]
    return UserMapped(base, m, im)


def ref_par2fun(s, p):
    """par2fun by definition: mapped geometries are composed by the harness from the wrapped geometry and the map"""
    if s["kind"] == "user":
        return np.exp(0.5 * np.asarray(p, dtype=float))
    if s["kind"] in ("mapped", "usermapped"):
        return gen.MAPS[s.get("map", "cube")][0](ref_par2fun(s["base"], p))
    return np.asarray(gen.make_geometry(s).par2fun(np.array(p, dtype=float)))


def ref_fun2par(s, f):
    if s["kind"] == "user":
        return 2.0 * np.log(np.asarray(f, dtype=float))
    if s["kind"] in ("mapped", "usermapped"):
        return ref_fun2par(s["base"], gen.MAPS[s.get("map", "cube")][1](np.asarray(f, dtype=float)))
    if s["kind"] == "image":
        # pixel (i, j) -> parameter index by definition (row-major for order "C", column-major for "F"), whatever the memory layout
        return np.ravel(np.asarray(f, dtype=float), order=s.get("order", "C")).copy()
    if s["kind"] == "cont2d":
        return np.ravel(np.asarray(f, dtype=float), order="C").copy()
    return np.asarray(gen.make_geometry(s).fun2par(np.ascontiguousarray(np.array(f, dtype=float))))


@st.composite
def model_cases(draw, tier="quick"):
    kind = draw(st.sampled_from(["jac", "grad", "noderiv", "lin_matrix", "lin_func"]))
    if kind in ("jac", "lin_matrix"):
        dom_kinds = ["default", "cont1d", "discrete", "kl", "step", "mapped1d", "user", "usermapped"]
        ran_kinds = ["default", "cont1d", "discrete", "mapped1d", "kl", "step"]
    else:
        dom_kinds = ["default", "cont1d", "discrete", "kl", "step", "mapped1d", "user", "usermapped", "image", "cont2d", "mappedimg"]
        ran_kinds = ["default", "cont1d", "discrete", "mapped1d", "image", "kl", "step"]
    dk = draw(st.sampled_from(dom_kinds))
    rk = draw(st.sampled_from(ran_kinds + ["cont1d", "default"]))

    def spec(k, is_range):
        if k in ("image", "cont2d"):
            shape = [draw(st.integers(2, 3)), draw(st.integers(2, 3))]
            s = {"kind": k, "shape": shape}
            if k == "image":
                s["order"] = draw(st.sampled_from(["C", "F"]))
            return s
        if k == "mappedimg":
            return {"kind": "mapped", "base": {"kind": "image", "shape": [2, draw(st.integers(2, 3))], "order": draw(st.sampled_from(["C", "F"]))},
                    "map": draw(st.sampled_from(["exp", "cube"])), "imap": draw(st.booleans())}
        n = draw(st.integers(2, 5))
        if k == "mapped1d":
            # the wrapped geometry may itself be an expansion (fun2par = inverse map, then the expansion's projection)
            base = draw(gen.geom1d_spec(n, ["cont1d", "cont1d", "kl", "step"]))
            return {"kind": "mapped", "base": base,
                    "map": draw(st.sampled_from(["affine", "cube"])) if is_range else draw(st.sampled_from(["exp", "cube", "affine"])),
                    "imap": True if is_range else draw(st.sampled_from([True, True, False]))}
        if k == "user":
            return {"kind": "user", "fun_dim": n}
        if k == "usermapped":
            return {"kind": "usermapped", "base": draw(gen.geom1d_spec(max(n, 3), ["kl", "kl", "step"])), "map": "cube", "imap": True}
        return draw(gen.geom1d_spec(n, [k]))
    dom, ran = spec(dk, False), spec(rk, True)
    nf = int(np.prod(fun_shape(dom)))
    mf = int(np.prod(fun_shape(ran)))
    N = draw(st.integers(1, 3))
    return {"kind": kind, "dom": dom, "ran": ran, "B": draw(gen.mat(mf, nf, -1, 1)), "D": draw(gen.mat(mf, nf, -1, 1)),
            "cc": draw(st.sampled_from([0.0, 0.5, 1.0])) if kind in ("jac", "grad", "noderiv") else 0.0,
            "P": draw(gen.mat(N, par_dim(dom), -1, 1)), "d": draw(gen.vec(par_dim(ran), -2, 2)),
            "argname": draw(st.sampled_from(["x", "u", "theta"])),
            # the user's functions written as plain array expressions: geometry-carrying arrays pass through their arithmetic
            "raw_ops": draw(st.booleans()),
            # memory layout of the matrix of a matrix-backed linear model and of the parameter vectors handed to it
            "layout": draw(st.sampled_from(gen.LAYOUTS)),
            "out_layout": draw(st.sampled_from(["plain", "plain", "fortran", "strided", "reversed", "readonly"]))}


def fun_shape(s):
    if s["kind"] == "usermapped":
        return gen.geom_fun_shape(s["base"])
    return (s["fun_dim"],) if s["kind"] == "user" else gen.geom_fun_shape(s)


def par_dim(s):
    if s["kind"] == "usermapped":
        return gen.geom_par_dim(s["base"])
    return s["fun_dim"] if s["kind"] == "user" else gen.geom_par_dim(s)


def make_geom(s, raw=False):
    if s["kind"] == "usermapped":
        return user_mapped_geometry(s)
    return user_geometry(s["fun_dim"], raw) if s["kind"] == "user" else gen.make_geometry(s)


def identity_like(s):
    return s["kind"] in ("default", "cont1d", "discrete", "image", "cont2d")


def build(c):
    import cuqi
    B, D, cc = A(c["B"]), A(c["D"]), c["cc"]
    dshape, rshape = fun_shape(c["dom"]), fun_shape(c["ran"])
    raw = bool(c.get("raw_ops")) and len(dshape) == 1 and len(rshape) == 1
    dom, ran = make_geom(c["dom"], raw), make_geom(c["ran"])

    out_layout = c.get("out_layout", "plain")

    def F(f):
        v = np.asarray(f, dtype=float).reshape(-1)
        # (the user's function may hand back its result in any memory layout: a transposed / Fortran-ordered image, a view ...)
        return gen.relayout((B @ v + cc * np.tanh(D @ v)).reshape(rshape), out_layout)

    def J(f):
        v = np.asarray(f, dtype=float).reshape(-1)
        return B + cc * (1 - np.tanh(D @ v) ** 2)[:, None] * D

    def F_raw(f):
        return B @ f + cc * np.tanh(D @ f)

    def grad_raw(direction, wrt):
        return B.T @ direction + cc * (D.T @ ((1 - np.tanh(D @ wrt) ** 2) * direction))
    fwd = gen.named_callable([c["argname"]], F_raw if raw else F)
    k = c["kind"]
    if k == "jac":
        model = cuqi.model.Model(fwd, ran, dom, jacobian=gen.named_callable([c["argname"]], J))
    elif k == "grad" and raw:
        model = cuqi.model.Model(fwd, ran, dom, gradient=grad_raw)
    elif k == "grad":
        model = cuqi.model.Model(fwd, ran, dom, gradient=lambda direction, wrt: gen.relayout((np.asarray(direction).reshape(-1) @ J(wrt)).reshape(dshape), out_layout))
    elif k == "noderiv":
        model = cuqi.model.Model(fwd, ran, dom)
    elif k == "lin_matrix":
        model = cuqi.model.LinearModel(gen.relayout(B, c.get("layout", "plain")), range_geometry=ran, domain_geometry=dom)
    else:
        model = cuqi.model.LinearModel(fwd, lambda y: gen.relayout((B.T @ np.asarray(y).reshape(-1)).reshape(dshape), out_layout),
                                       range_geometry=ran, domain_geometry=dom)
    Fref = F if k != "lin_matrix" else (lambda f: B @ np.asarray(f, dtype=float))
    return model, dom, ran, Fref


def tags_of(c):
    dk = c["dom"]["kind"] if c["dom"]["kind"] not in ("mapped", "usermapped") else c["dom"]["kind"] + "_" + c["dom"]["base"]["kind"]
    rk = c["ran"]["kind"] if c["ran"]["kind"] != "mapped" else "mapped_" + c["ran"]["base"]["kind"] + "_" + c["ran"]["map"]
    return {"model": c["kind"], "dom": dk, "ran": rk, "raw_ops": bool(c.get("raw_ops"))}


def run_forward(c, rec):
    import cuqi
    if rec.classify(tags_of(c), not identity_like(c["dom"]) or not identity_like(c["ran"]) or c["cc"] > 0):
        return
    model, dom, ran, F = must(lambda: build(c), "constructing the model")
    P = A(c["P"]).T
    p = gen.relayout(P[:, 0], c.get("layout", "plain"))
    f = ref_par2fun(c["dom"], p)
    y0 = np.asarray(ref_fun2par(c["ran"], F(f)), dtype=float)
    require(y0.shape == (par_dim(c["ran"]),), "harness: reference output shape")
    # (a) plain parameter vector
    ya = must(lambda: model.forward(p.copy()), "forward(ndarray)")
    require(type(ya) is np.ndarray or not isinstance(ya, cuqi.array.CUQIarray), "ndarray input must give ndarray output")
    require(np.asarray(ya).shape == y0.shape and close(ya, y0, 1e-12), "forward(parameters) differs from fun2par(F(par2fun(p)))",
            got=ya, want=y0)
    require(close(model(p.copy()), y0, 1e-12), "model(p) != forward(p)")
    kw = {c["argname"]: p.copy()} if c["kind"] not in ("lin_matrix",) else None
    if kw is not None:
        require(close(model.forward(**kw), y0, 1e-12), "keyword call differs from positional call")
    # (b) function values flagged as such
    yb = must(lambda: model.forward(f.copy(), is_par=False), "forward(funvals, is_par=False)")
    require(close(np.asarray(yb), y0, 1e-12), "forward on function values (is_par=False) differs", got=yb, want=y0)
    # the representation flag given as a numpy boolean (the result of a comparison, an element of a mask): it means what the
    # Python boolean means
    yb2 = must(lambda: model.forward(f.copy(), is_par=np.False_), "forward(funvals, is_par=np.False_)")
    require(close(np.asarray(yb2), y0, 1e-12), "forward with is_par=np.False_ differs from forward with is_par=False", got=yb2, want=y0)
    ya2 = must(lambda: model.forward(p.copy(), is_par=np.True_), "forward(p, is_par=np.True_)")
    require(close(np.asarray(ya2), y0, 1e-12), "forward with is_par=np.True_ differs from forward with is_par=True", got=ya2, want=y0)
    arr_np = cuqi.array.CUQIarray(p.copy(), is_par=np.bool_(True), geometry=dom)
    yc2 = must(lambda: model.forward(arr_np), "forward(CUQIarray flagged with a numpy boolean)")
    require(close(np.asarray(yc2), y0, 1e-12), "forward of a CUQIarray whose is_par flag is a numpy boolean differs (the flag was not understood)",
            got=np.asarray(yc2), want=y0)
    require(close(np.asarray(arr_np.funvals, dtype=float), np.asarray(f, dtype=float), 1e-12),
            "CUQIarray(is_par=np.True_).funvals is not par2fun of the parameters")
    # (c,d) geometry-carrying arrays in either representation
    # the array may carry the model's own geometry object or an equal geometry built separately (equality of geometries is by value)
    dom_twin = make_geom(c["dom"])
    twin_ok = dom_twin == dom
    if c["dom"]["kind"] not in ("mapped", "user", "usermapped"):
        # geometries built from the same plain arguments are equal by value - also after one of them has been used
        require(twin_ok, "two geometries built from the same arguments are not equal (after one of them has been used by the model)",
                kind=c["dom"]["kind"])
    for label, arr in (("parameters", cuqi.array.CUQIarray(p.copy(), is_par=True, geometry=dom)),
                       ("function values", cuqi.array.CUQIarray(f.copy(), is_par=False, geometry=dom))) + \
            ((("parameters (equal geometry built separately)", cuqi.array.CUQIarray(p.copy(), is_par=True, geometry=dom_twin)),
              ("function values (equal geometry built separately)", cuqi.array.CUQIarray(f.copy(), is_par=False, geometry=dom_twin))) if twin_ok else ()):
        yc = must(lambda: model.forward(arr), f"forward(CUQIarray of {label})")
        require(isinstance(yc, cuqi.array.CUQIarray), f"CUQIarray input ({label}) must give CUQIarray output")
        require(yc.is_par is True and yc.geometry == ran, f"output for CUQIarray of {label} is not flagged as parameters of the range geometry")
        require(np.asarray(yc).shape == y0.shape and close(np.asarray(yc), y0, 1e-12), f"forward(CUQIarray of {label}) differs",
                got=np.asarray(yc), want=y0)
    # (e) sample collections, column-wise
    S = cuqi.samples.Samples(P.copy(), geometry=dom)
    Ys = must(lambda: model.forward(S), "forward(Samples)")
    require(isinstance(Ys, cuqi.samples.Samples) and Ys.Ns == P.shape[1] and Ys.geometry == ran, "Samples input must give Samples over the range geometry")
    for i in range(P.shape[1]):
        yi = np.asarray(ref_fun2par(c["ran"], F(ref_par2fun(c["dom"], P[:, i]))), dtype=float)
        require(close(Ys.samples[:, i], yi, 1e-12), "forward(Samples) is not column-wise forward", i=i)
    require(maxdiff(S.samples, P) == 0, "forward altered the input samples")
    # a chain that moves in tiny steps: every column is evaluated, none is taken over from its neighbour
    Ptiny = P[:, :1] * (1.0 + 1e-7 * np.arange(4)[None, :]) + 1e-9 * np.arange(4)[None, :]
    refused, Yt = refuses(lambda: model.forward(cuqi.samples.Samples(Ptiny.copy(), geometry=dom)))
    if not refused:
        for i in range(4):
            yi = np.asarray(model.forward(Ptiny[:, i].copy()), dtype=float)
            require(maxdiff(np.asarray(Yt.samples, dtype=float)[:, i], yi) <= 1e-13 * (1 + np.max(np.abs(yi))),
                    "forward(Samples) of a chain moving in tiny steps is not column-wise forward (a column was taken over from its neighbour?)", i=i)
    # an integer-typed sample array: the same map, nothing truncated
    Pint = np.round(2 * P).astype(int)
    refused, Yi = refuses(lambda: model.forward(cuqi.samples.Samples(Pint.copy(), geometry=dom)))
    refused2, Yfl = refuses(lambda: model.forward(cuqi.samples.Samples(Pint.astype(float), geometry=dom)))
    if not refused and not refused2:
        require(close(np.asarray(Yi.samples, dtype=float), np.asarray(Yfl.samples, dtype=float), 1e-12),
                "forward(Samples with an integer-typed array) differs from forward of the same numbers as floats (truncated?)")
    # the same samples given as function values
    refused, Fsamp = refuses(lambda: S.funvals)
    if not refused:
        refused, Yf = refuses(lambda: model.forward(Fsamp))
        if not refused:
            require(isinstance(Yf, cuqi.samples.Samples) and close(np.asarray(Yf.samples), np.asarray(Ys.samples), 1e-10),
                    "forward(Samples of function values) differs from forward(Samples of parameters)")


def run_gradient(c, rec):
    import cuqi
    tags = tags_of(c)
    if rec.classify(tags, not identity_like(c["dom"]) or c["cc"] > 0):
        return
    model, dom, ran, F = must(lambda: build(c), "constructing the model")
    p = A(c["P"])[0].copy()
    d = A(c["d"])
    has_deriv = c["kind"] != "noderiv"
    can = has_deriv and identity_like(c["ran"]) and (identity_like(c["dom"]) or c["dom"]["kind"] in ("user", "usermapped"))
    refused, g = refuses(lambda: model.gradient(d.copy(), p.copy()))
    if not can:
        require(refused, "gradient returned a vector although it cannot be formed correctly "
                         "(no derivative, non-identity range geometry, or domain geometry without its own gradient)",
                got=None if refused else np.asarray(g))
        rec.count("refused_as_required")
        return
    require(not refused, "gradient refused although model, range and domain geometry support it", err=str(g))
    n = len(p)
    h = 1e-6
    Jp = np.zeros((len(d), n))
    for i in range(n):
        e = np.zeros(n)
        e[i] = h
        Jp[:, i] = (np.asarray(model.forward(p + e), dtype=float) - np.asarray(model.forward(p - e), dtype=float)) / (2 * h)
    want = Jp.T @ d
    g = np.asarray(g, dtype=float)
    require(g.shape == (n,), "gradient has wrong shape", shape=g.shape)
    require(close(g, want, 2e-5), "gradient is not the transposed Jacobian of the parameter-to-output map applied to the direction",
            got=g, want=want)
    # direction as geometry-carrying array -> result wrapped with the domain geometry
    da = cuqi.array.CUQIarray(d.copy(), is_par=True, geometry=ran)
    ga = must(lambda: model.gradient(da, p.copy()), "gradient(CUQIarray direction)")
    require(isinstance(ga, cuqi.array.CUQIarray) and ga.geometry == dom and close(np.asarray(ga), g, 1e-12),
            "gradient with CUQIarray direction differs or is not wrapped with the domain geometry")
    # linearisation point given as function values
    f = ref_par2fun(c["dom"], p)
    if maxdiff(ref_fun2par(c["dom"], f), p) <= 1e-9:
        # (the function is a function of this geometry: its parameters are recovered exactly)
        gt_ = must(lambda: model.gradient(d.copy(), p.copy(), is_wrt_par=np.True_), "gradient(is_wrt_par=np.True_)")
        require(close(np.asarray(gt_, dtype=float), g, 1e-12), "gradient with is_wrt_par=np.True_ differs from is_wrt_par=True")
        gf = must(lambda: model.gradient(d.copy(), f.copy(), is_wrt_par=False), "gradient(is_wrt_par=False)")
        require(close(np.asarray(gf, dtype=float), g, 1e-7), "gradient with wrt given as function values differs")
        fa = cuqi.array.CUQIarray(f.copy(), is_par=False, geometry=dom)
        gfa = must(lambda: model.gradient(d.copy(), fa), "gradient(function-value CUQIarray wrt)")
        require(close(np.asarray(gfa, dtype=float), g, 1e-7), "gradient with wrt given as a function-value CUQIarray differs")
    else:
        rec.count("wrt_roundtrip_inexact")
    wa = cuqi.array.CUQIarray(p.copy(), is_par=True, geometry=dom)
    gw = must(lambda: model.gradient(d.copy(), wa), "gradient(CUQIarray wrt)")
    require(close(np.asarray(gw, dtype=float), g, 1e-12), "gradient with CUQIarray wrt differs", got=np.asarray(gw, dtype=float), want=g)
    gb = must(lambda: model.gradient(da, wa), "gradient(CUQIarray direction, CUQIarray wrt)")
    require(close(np.asarray(gb, dtype=float), g, 1e-12), "gradient with CUQIarray direction and CUQIarray wrt differs", got=np.asarray(gb, dtype=float), want=g)


def run_rename(c, rec):
    import cuqi
    if rec.classify(tags_of(c), True):
        return
    model, dom, ran, F = must(lambda: build(c), "constructing the model")
    n = par_dim(c["dom"])
    p = A(c["P"])[0].copy()
    y0 = np.asarray(model.forward(p.copy()), dtype=float)
    args_before = list(model._non_default_args) if hasattr(model, "_non_default_args") else None
    dist = cuqi.distribution.Gaussian(np.zeros(n), 1.0, name="zz")
    m2 = must(lambda: model(dist), "model(distribution)")
    require(isinstance(m2, cuqi.model.Model) and m2 is not model, "model(distribution) must return a new model")
    require(cuqi.utilities.get_non_default_args(m2) == ["zz"], "renamed model's input is not the distribution's name",
            got=cuqi.utilities.get_non_default_args(m2))
    require(close(m2.forward(zz=p.copy()), y0, 1e-12) and close(m2.forward(p.copy()), y0, 1e-12), "renamed model computes something else")
    require(m2.domain_geometry == model.domain_geometry and m2.range_geometry == model.range_geometry, "renaming changed a geometry")
    require(type(m2) is type(model), "renaming changed the model type")
    # the original is untouched
    require(cuqi.utilities.get_non_default_args(model) == args_before, "applying the model to a distribution renamed the original")
    require(close(model.forward(p.copy()), y0, 1e-12), "original model changed")
    refused, _ = refuses(lambda: m2.forward(**{c["argname"]: p.copy()})) if c["argname"] != "zz" else (True, None)
    require(refused, "renamed model still accepts the old argument name")
    if c["kind"] in ("jac", "grad") and identity_like(c["ran"]) and identity_like(c["dom"]):
        d = A(c["d"])
        require(close(m2.gradient(d, p.copy()), model.gradient(d, p.copy()), 1e-12), "renaming changed the gradient")
    bad = cuqi.distribution.Gaussian(np.zeros(n + 1), 1.0, name="zz")
    refused, _ = refuses(lambda: model(bad))
    require(refused, "dimension mismatch between model and distribution must be refused")
    # matmul form for linear models
    if c["kind"].startswith("lin"):
        m3 = must(lambda: model @ dist, "model @ distribution")
        require(cuqi.utilities.get_non_default_args(m3) == ["zz"], "model @ distribution does not rename")


# ----------------------------------------------------------------------------- PDE-based models

def run_pde_model(c, rec):
    """a PDE-based model acts identically on every representation of its input; reference = numpy solve of the generated system"""
    import cuqi
    from checks import c18
    n, k = c["n"], c["k"]
    if rec.classify({"model": "pde_steady", "solver": c["solver"]}, True):
        return
    Aof, bof, Ak, B = c18.steady_parts(c)
    th = A(c["theta"])
    grid = np.array(c["grid"], dtype=float)
    solver, kw = c18.make_solver(c["solver"])
    kwargs = {"grid_sol": grid}
    if solver is not None:
        kwargs["linalg_solve"] = solver
    if kw is not None:
        kwargs["linalg_solve_kwargs"] = kw
    ref = lambda p: np.linalg.solve(Aof(p), bof(p))
    # another PDE model (other operator) that is applied to the very same array objects first
    Aof2 = lambda p: Aof(p) + 0.7 * np.eye(n)
    dom = cuqi.geometry.Discrete(k)
    other = cuqi.model.PDEModel(cuqi.pde.SteadyStateLinearPDE(lambda p: (Aof2(p), bof(p)), **kwargs), range_geometry=cuqi.geometry.Continuous1D(n),
                                domain_geometry=dom)
    model = must(lambda: cuqi.model.PDEModel(cuqi.pde.SteadyStateLinearPDE(lambda p: (Aof(p), bof(p)), **kwargs),
                                             range_geometry=cuqi.geometry.Continuous1D(n), domain_geometry=dom), "constructing PDEModel")
    tol = 1e-8
    buf = th.copy()
    y_other = np.asarray(other.forward(buf), dtype=float)
    require(close(y_other, np.linalg.solve(Aof2(th), bof(th)), tol), "harness: second PDE model")
    y = np.asarray(must(lambda: model.forward(buf), "PDEModel.forward"), dtype=float)
    require(close(y, ref(th), tol), "PDEModel.forward(p) is not the solution of the assembled system (after another PDE model was applied to the same array object)",
            got=y, want=ref(th))
    # the caller's buffer overwritten in place
    th2 = th * 0.5 + 0.1
    buf[:] = th2
    y2 = np.asarray(model.forward(buf), dtype=float)
    require(close(y2, ref(th2), tol), "PDEModel.forward on a buffer that was overwritten in place returns the output of the buffer's earlier content",
            got=y2, want=ref(th2))
    # geometry-carrying arrays, keyword call
    ya = model.forward(cuqi.array.CUQIarray(th.copy(), is_par=True, geometry=dom))
    require(isinstance(ya, cuqi.array.CUQIarray) and close(np.asarray(ya), ref(th), tol), "PDEModel.forward(CUQIarray) differs or is not wrapped")
    yf = model.forward(th.copy(), is_par=False)
    require(close(np.asarray(yf, dtype=float), ref(th), tol), "PDEModel.forward(function values) differs")
    # sample collections column-wise (also a chain that moves in tiny steps)
    P = np.stack([th, th2, th * (1 + 1e-7), th * (1 + 2e-7) + 1e-9], axis=1)
    Ys = must(lambda: model.forward(cuqi.samples.Samples(P.copy(), geometry=dom)), "PDEModel.forward(Samples)")
    require(isinstance(Ys, cuqi.samples.Samples) and Ys.Ns == 4, "PDEModel.forward(Samples) does not return Samples with one column per input column")
    for i in range(4):
        want = ref(P[:, i])
        require(maxdiff(np.asarray(Ys.samples, dtype=float)[:, i], want) <= tol * (1 + np.max(np.abs(want))),
                "PDEModel.forward(Samples) is not column-wise forward", i=i, got=np.asarray(Ys.samples)[:, i], want=want)
    require(maxdiff(buf, th2) == 0, "PDEModel.forward altered its input")


def run_pde_time_model(c, rec):
    """a time-dependent PDE-based model: outputs handed out earlier stay what they were when the model is evaluated again, and a
    sample collection is mapped column by column (reference: the Euler recurrence stepped by the harness)"""
    import cuqi
    from checks import c18
    n = c["n"]
    if rec.classify({"model": "pde_time", "method": c["method"]}, True):
        return
    Aof, fof, ic = c18.time_parts(c)
    times = c["t0"] + np.concatenate([[0.0], np.cumsum(c["dts"])])
    grid = c18.grid_of(c)
    k = c["k"]

    def ref(th):
        u = np.array(ic(th, times[0]), dtype=float)
        for j in range(len(times) - 1):
            dt = times[j + 1] - times[j]
            if c["method"] == "forward_euler":
                u = u + dt * (Aof(th, times[j]) @ u + fof(th, times[j]))
            else:
                u = np.linalg.solve(np.eye(n) - dt * Aof(th, times[j + 1]), u + dt * fof(th, times[j + 1]))
        return u
    pde = cuqi.pde.TimeDependentLinearPDE(lambda p, t: (Aof(p, t), fof(p, t), ic(p, t)), times, grid_sol=grid, method=c["method"])
    dom = cuqi.geometry.Discrete(k)
    model = must(lambda: cuqi.model.PDEModel(pde, range_geometry=cuqi.geometry.Continuous1D(n), domain_geometry=dom), "constructing PDEModel")
    ths = [A(c["theta"]), A(c["theta"]) * 0.5 - 0.3, A(c["theta"]) + 0.25]
    outs = [must(lambda: model.forward(th.copy()), "PDEModel.forward") for th in ths]     # every output is kept ...
    for th, y in zip(ths, outs):                                                          # ... and looked at only afterwards
        want = ref(th)
        require(np.asarray(y).shape == want.shape and maxdiff(np.asarray(y, dtype=float), want) <= 1e-8 * (1 + np.max(np.abs(want))),
                "PDEModel.forward: an output handed out earlier is no longer the solution for its parameter after the model was evaluated again "
                "(or never was)", got=np.asarray(y, dtype=float), want=want)
    Ys = must(lambda: model.forward(cuqi.samples.Samples(np.stack(ths, axis=1), geometry=dom)), "PDEModel.forward(Samples)")
    for i, th in enumerate(ths):
        require(maxdiff(np.asarray(Ys.samples, dtype=float)[:, i], ref(th)) <= 1e-8 * (1 + np.max(np.abs(ref(th)))), "PDEModel.forward(Samples) is not column-wise forward", i=i)


SUBCHECKS = [
    SubCheck("C12/forward_representations", run_forward, strategy=model_cases, n={"quick": 1200, "thorough": 30000},
             shards={"quick": 4, "thorough": 16}),
    SubCheck("C12/gradient", run_gradient, strategy=model_cases, n={"quick": 1200, "thorough": 30000},
             shards={"quick": 4, "thorough": 16}),
    SubCheck("C12/pde_model", run_pde_model, strategy=lambda tier: __import__("checks.c18", fromlist=["steady_cases"]).steady_cases(tier),
             n={"quick": 300, "thorough": 5000}, shards={"quick": 2, "thorough": 8}),
    SubCheck("C12/pde_time_model", run_pde_time_model, strategy=lambda tier: __import__("checks.c18", fromlist=["time_cases"]).time_cases(tier),
             n={"quick": 200, "thorough": 3000}, shards={"quick": 2, "thorough": 8}),
    SubCheck("C12/apply_to_distribution", run_rename, strategy=model_cases, n={"quick": 500, "thorough": 10000},
             shards={"quick": 4, "thorough": 16}),
]
