"""C02 - Metropolis-type kernels accept with exactly the Metropolis-Hastings probability."""
import copy
import numpy as np
from hypothesis import strategies as st

from vlib.core import SubCheck, Violation, require, close, maxdiff, A, must, refuses, HarnessError
from vlib import gen
from vlib.rand import ScriptedRNG, patched_global

PROPERTY = "C02"
RULE = ("Hypothesis draws the sampler (MH, CWMH, pCN, MALA) x interface (cuqi.experimental.mcmc, cuqi.sampler), a smooth target "
        "(quadratic + quartic with analytic gradient; for pCN a posterior with Gaussian/Normal prior - zero or non-zero mean, "
        "scalar/vector/matrix covariance - and a Gaussian likelihood over a linear or non-linear model), dimension 1-5, the current "
        "state, the scale (per component for CWMH), the proposal noise, the sampler history (fresh, after warm-up/adaptation under a "
        "seeded stream, after get_state -> set_state into a new sampler) and where the uniform draw falls relative to the reference "
        "acceptance probability (alpha*(1 +- delta), delta from 1e-9 to 1e-1, or a generated u). Non-trivial: x' != x and 0 < alpha < 1; "
        "distinct = distinct generated case.")
ASSUMPTIONS = ["the proposal mechanism is *measured*, not assumed: a fresh kernel at x with noise 0 and e_i gives x' = a(x) + B(x) xi (affinity is "
               "checked), hence q(x'|x) = N(a(x), B B^T); the same at x'. alpha_ref = min(1, pi(x') q(x|x') / (pi(x) q(x'|x))) with pi the target's logd",
               "CWMH: each component proposal is measured to be centred at the current state (symmetric), the sweep is replayed by a reference sweep",
               "ties |log u - log alpha_ref| < 1e-11 are inconclusive"]

SAMPLERS = ["MH", "CWMH", "PCN", "MALA"]


# ----------------------------------------------------------------------------- targets

class Target:
    """smooth target with a recording log-density; optional non-finite half-space"""

    def __init__(self, c, bad=None):
        self.c = c
        n = c["dim"]
        self.a = A(c["ta"])
        self.H = gen.spd_from(c["tG"], 0.5)
        self.q = c["tq"]
        # un-normalised target: a constant added to the log-density (posteriors with many data have log-densities of -10^3 ... -10^4)
        self.shift = float(c.get("tshift", 0.0))
        self.calls = []
        self.bad = bad  # (w, threshold, value): logd = value where w.z > threshold

    def f(self, z):
        z = np.asarray(z, dtype=float).reshape(-1)
        if self.bad is not None and float(self.bad[0] @ z) > self.bad[1]:
            return self.bad[2]
        r = z - self.a
        return float(-0.5 * r @ self.H @ r - self.q * np.sum(r ** 4)) + self.shift

    def g(self, z):
        z = np.asarray(z, dtype=float).reshape(-1)
        if self.bad is not None and self.c.get("bad_grad") == "nan" and float(self.bad[0] @ z) > self.bad[1]:
            return np.full(len(z), np.nan)     # where the log-density is not finite its derivative usually is not either
        r = z - self.a
        return -(self.H @ r) - 4 * self.q * r ** 3

    def logd_recorded(self, z):
        self.calls.append(np.array(z, dtype=float).reshape(-1).copy())
        return self.f(z)

    def build(self):
        import cuqi
        return cuqi.distribution.UserDefinedDistribution(dim=self.c["dim"], logpdf_func=self.logd_recorded, gradient_func=self.g)

    def logpi(self, z):
        return self.f(z)


class PosteriorTarget:
    """posterior with Gaussian/Normal prior and Gaussian likelihood; forward evaluations are recorded"""

    def __init__(self, c, bad=None):
        import cuqi
        self.c = c
        n = c["dim"]
        m = c["pm"]
        self.Am = A(c["pA"])[:m, :n]
        self.cc = c["pcc"] if c["pmodel"] == "nonlinear" else 0.0
        self.calls = []
        self.bad = bad
        self.b = A(c["pdata"])[:m]
        self.nvar = c["pnvar"]
        mu = A(c["pmean"])[:n] if c["pmean_kind"] == "vector" else np.zeros(n)
        if c["pmean_kind"] == "zero_sum" and n >= 2:
            # a non-zero mean whose entries sum to exactly zero
            mu = np.zeros(n)
            mu[0], mu[1] = 2.0, -2.0
            if n >= 4:
                mu[2], mu[3] = -0.5, 0.5
        self.mu = mu
        var = A(c["pvar"])[:n]
        kind = c["pprior"]
        if kind == "gauss_scalar":
            self.C = var[0] * np.eye(n)
            self.prior = cuqi.distribution.Gaussian(mu.copy(), float(var[0]), name="x")
        elif kind == "gauss_vector":
            self.C = np.diag(var)
            self.prior = cuqi.distribution.Gaussian(mu.copy(), var.copy(), name="x")
        elif kind == "gauss_matrix":
            self.C = gen.spd_from(A(c["pG"])[:n, :n], 0.0) + np.diag(var)
            self.prior = cuqi.distribution.Gaussian(mu.copy(), self.C.copy(), name="x")
        else:
            self.C = np.diag(var)
            self.prior = cuqi.distribution.Normal(mu.copy(), np.sqrt(var), name="x")
        Am, cc = self.Am, self.cc

        def fwd(x):
            self.calls.append(np.array(x, dtype=float).reshape(-1).copy())
            x = np.asarray(x, dtype=float)
            out = Am @ x + cc * np.tanh(Am @ x)
            if self.bad is not None and float(self.bad[0] @ x) > self.bad[1]:
                return out * self.bad[2]  # nan or inf forward output => non-finite likelihood
            return out
        if c["pmodel"] == "linear":
            self.model = cuqi.model.LinearModel(fwd, lambda y: Am.T @ y, range_geometry=m, domain_geometry=n)
        else:
            self.model = cuqi.model.Model(fwd, m, n)
        y = cuqi.distribution.Gaussian(self.model(self.prior), self.nvar, geometry=m, name="y")
        self.post = cuqi.distribution.JointDistribution(y, self.prior)(y=self.b)

    def build(self):
        return self.post

    def loglik(self, z):
        z = np.asarray(z, dtype=float)
        if self.bad is not None and float(self.bad[0] @ z) > self.bad[1]:
            return float("nan") if np.isnan(self.bad[2]) else float("-inf")
        r = self.Am @ z + self.cc * np.tanh(self.Am @ z) - self.b
        return float(-0.5 * r @ r / self.nvar)

    def logpi(self, z):
        r = np.asarray(z, dtype=float) - self.mu
        return self.loglik(z) + float(-0.5 * r @ np.linalg.solve(self.C, r))


# ----------------------------------------------------------------------------- kernels

class Kernel:
    """uniform handle on one sampler class in one interface"""

    def __init__(self, c, target):
        import cuqi
        self.c, self.t = c, target
        self.name, self.iface = c["sampler"], c["interface"]
        self.dist = target.build()
        if self.name == "PCN" and self.iface == "legacy" and c.get("ptuple"):
            self.dist = (self.dist.likelihood, self.dist.prior)
        E, L = cuqi.experimental.mcmc, cuqi.sampler
        self.cls = {"MH": (E.MH, L.MH), "CWMH": (E.CWMH, L.CWMH), "PCN": (E.PCN, L.pCN), "MALA": (E.MALA, L.MALA)}[self.name][0 if self.iface == "experimental" else 1]

    def fresh(self, x, scale):
        x = np.array(x, dtype=float)
        if self.c.get("int_start") and np.all(x == np.round(x)):
            x = x.astype(int)       # an integer-typed start array (np.array([1, 0, 2])) is an ordinary way to write a start value
        if self.iface == "experimental":
            s = self.cls(self.dist, scale=copy.deepcopy(scale), initial_point=x.copy())
            s.initialize()
            return s
        return self.cls(self.dist, scale=copy.deepcopy(scale), x0=x.copy())

    def transition(self, s, x, normals, uniforms):
        """one transition of sampler s from state x under a scripted stream; returns (new state, proposed points, rng)"""
        self.t.calls.clear()
        rng = ScriptedRNG(normal=list(normals), uniform=list(uniforms))
        if self.iface == "experimental":
            with patched_global(rng):
                s.step()
            new = np.asarray(s.current_point, dtype=float).copy()
            proposed = [p.copy() for p in self.t.calls]
        else:
            s.x0 = np.array(x, dtype=float).copy()
            if self.c.get("rng_arg") and self.name == "MALA":
                # the legacy Langevin samplers take an optional generator: the draws then come from it, not from the global stream
                s.rng = rng
                S = s.sample(2)
            else:
                with patched_global(rng):
                    S = s.sample(2)
            X = np.asarray(S.samples, dtype=float)
            new = X[:, 1].copy()
            proposed = [p.copy() for p in self.t.calls[1:]]  # calls[0] is the evaluation at x0
        require(len(rng.q["normal"]) == 0 and len(rng.q["uniform"]) == 0,
                "kernel consumed fewer random draws than expected for one transition", left=(len(rng.q["normal"]), len(rng.q["uniform"])))
        return new, proposed, rng

    def n_normals(self):
        return self.c["dim"]


def measure_proposal(K, x, scale, u_mid=0.5):
    """a(x), B(x) of x' = a + B xi by probing a fresh kernel with noise 0 and e_i"""
    n = K.c["dim"]
    s = K.fresh(x, scale)
    _, prop, _ = K.transition(s, x, np.zeros(n), [u_mid])
    require(len(prop) >= 1, "no proposal was evaluated during the transition")
    a = prop[0]
    B = np.zeros((n, n))
    for i in range(n):
        e = np.zeros(n)
        e[i] = 1.0
        s = K.fresh(x, scale)
        _, prop, _ = K.transition(s, x, e, [u_mid])
        B[:, i] = prop[0] - a
    e = np.cos(1.0 + np.arange(n))
    s = K.fresh(x, scale)
    _, prop, _ = K.transition(s, x, e, [u_mid])
    require(close(prop[0], a + B @ e, 1e-9), "the proposal is not an affine function of the base normal draw (harness assumption)")
    return a, B


def log_gauss(z, mean, B):
    Cq = B @ B.T
    r = z - mean
    sign, logdet = np.linalg.slogdet(Cq)
    return float(-0.5 * r @ np.linalg.solve(Cq, r) - 0.5 * logdet)


# ----------------------------------------------------------------------------- cases

@st.composite
def mh_cases(draw, tier="quick", samplers=("MH", "PCN", "MALA")):
    sampler = draw(st.sampled_from(list(samplers)))
    # the experimental CWMH cannot run in dimension 1 (it indexes a scalar draw): an exception, not a wrong decision
    n = draw(st.integers(2 if sampler == "CWMH" else 1, 4 if tier == "quick" else 5))
    c = {"sampler": sampler, "interface": draw(st.sampled_from(["experimental", "legacy"])), "dim": n,
         "ta": draw(gen.vec(n, -1, 1)), "tG": draw(gen.mat(n, n, -0.7, 0.7)), "tq": draw(st.sampled_from([0.0, 0.05, 0.3])),
         "x": draw(gen.vec(n, -1.5, 1.5)), "xi": draw(gen.vec(n, -2, 2)),
         "scale": draw(st.sampled_from([0.05, 0.2, 0.5, 0.9])) if sampler != "MALA" else draw(st.sampled_from([0.01, 0.05, 0.2])),
         "history": draw(st.sampled_from(["fresh", "fresh", "warmup", "reload", "rescaled"])), "hseed": draw(st.integers(0, 10 ** 6)),
         "u_mode": draw(st.sampled_from(["above", "below", "generated"])), "delta": draw(st.sampled_from([1e-9, 1e-6, 1e-3, 1e-1])),
         "u": draw(st.floats(1e-6, 1 - 1e-6)), "bad_value": draw(st.sampled_from(["nan", "-inf"])),
         "int_start": draw(st.sampled_from([False, False, False, True])), "bad_grad": draw(st.sampled_from(["finite", "nan"])),
         "rng_arg": draw(st.booleans()), "tshift": draw(st.sampled_from([0.0, 0.0, -900.0, -5000.0, 400.0]))}
    if c["int_start"]:
        c["x"] = [float(round(v)) for v in c["x"]]
    if sampler == "PCN":
        m = draw(st.integers(1, 4))
        c.update(pm=m, pA=draw(gen.mat(4, 5, -1, 1)), pcc=0.5, pmodel=draw(st.sampled_from(["linear", "nonlinear"])),
                 pdata=draw(gen.vec(4, -2, 2)), pnvar=draw(gen.logpos(-1, 0.5)),
                 pprior=draw(st.sampled_from(["gauss_scalar", "gauss_vector", "gauss_matrix", "normal"])),
                 pmean_kind=draw(st.sampled_from(["zero", "zero", "vector", "zero_sum"])), pmean=draw(gen.vec(5, -1, 1)),
                 pvar=draw(st.lists(gen.logpos(-0.7, 0.5), min_size=5, max_size=5)), pG=draw(gen.mat(5, 5, -0.4, 0.4)),
                 # the legacy pCN also takes its target as a (likelihood, prior) tuple
                 ptuple=draw(st.booleans()))
    return c


def make_target(c, bad=None):
    return PosteriorTarget(c, bad) if c["sampler"] == "PCN" else Target(c, bad)


def prepare_subject(K, c, x):
    """the sampler whose decision is judged, brought into the generated history; returns (sampler, state x, scale)"""
    scale = c["scale"]
    if c["history"] == "fresh":
        return K.fresh(x, scale), np.array(x, dtype=float), scale
    np.random.seed(c["hseed"])
    try:
        if c["history"] == "rescaled":
            # a sampler that has already made transitions with another scale and is then given the scale through its public attribute
            other = copy.deepcopy(scale)
            other = other * 0.5
            s = K.fresh(x, other)
            if K.iface == "experimental":
                s.sample(4)
                xs = np.asarray(s.current_point, dtype=float).copy()
            else:
                S = s.sample(5)
                xs = np.asarray(S.samples, dtype=float)[:, -1].copy()
            s.scale = copy.deepcopy(scale)
            return s, xs, copy.deepcopy(scale)
        if K.iface == "experimental":
            s = K.fresh(x, scale)
            s.warmup(25, tune_freq=0.2)
            if c["history"] == "reload":
                state = copy.deepcopy(s.get_state())
                s2 = K.fresh(x, scale)
                s2.set_state(state)
                s = s2
            return s, np.asarray(s.current_point, dtype=float).copy(), copy.deepcopy(s.scale)
        s = K.fresh(x, scale)
        S = s.sample_adapt(30, 0)
        xs = np.asarray(S.samples, dtype=float)[:, -1].copy()
        return s, xs, copy.deepcopy(s.scale)
    finally:
        np.random.seed()


def tags_of(c):
    t = {"sampler": c["sampler"], "interface": c["interface"], "history": c["history"]}
    if c["sampler"] != "PCN" and c.get("tshift"):
        t["logd_shift"] = c["tshift"]
    if c["sampler"] == "MALA" and c["interface"] == "legacy":
        t["rng_arg"] = bool(c.get("rng_arg"))
    if c["sampler"] == "PCN":
        t["prior_mean"] = c["pmean_kind"]
        t["target_form"] = "tuple" if (c["interface"] == "legacy" and c.get("ptuple")) else "posterior"
    return t


# ----------------------------------------------------------------------------- the MH identity

def run_decision(c, rec):
    tags = tags_of(c)
    T = make_target(c)
    K = Kernel(c, T)
    n = c["dim"]
    subject, x, scale = must(lambda: prepare_subject(K, c, A(c["x"])), "bringing the sampler into its history")
    xi = A(c["xi"])
    a_x, B_x = measure_proposal(K, x, scale)
    xp = a_x + B_x @ xi
    a_p, B_p = measure_proposal(K, xp, scale)
    lp_x, lp_p = T.logpi(x), T.logpi(xp)
    log_ratio = lp_p - lp_x + log_gauss(x, a_p, B_p) - log_gauss(xp, a_x, B_x)
    log_alpha = min(0.0, log_ratio)
    nontrivial = bool(np.linalg.norm(xp - x) > 0 and log_alpha < 0)
    tags["alpha<1"] = log_alpha < 0
    if rec.classify(tags, nontrivial):
        return
    # where the uniform draw falls
    alpha = float(np.exp(log_alpha))
    if c["u_mode"] == "generated":
        u = c["u"]
    elif c["u_mode"] == "above":
        u = alpha * (1 + c["delta"])
    else:
        u = alpha * (1 - c["delta"])
    if not (0 < u < 1):
        u = c["u"]
    if abs(np.log(u) - log_alpha) < 1e-11:
        rec.inconc("tie")
        return
    expect_accept = np.log(u) <= log_alpha
    # caches before
    before = snapshot(subject)
    new, prop, _ = K.transition(subject, x, xi, [u])
    require(close(prop[0], xp, 1e-9), "the proposal made in the judged transition is not the measured proposal map applied to the noise")
    accepted = maxdiff(new, xp) <= 1e-12 * (1 + np.max(np.abs(xp)))
    stayed = maxdiff(new, x) == 0
    require(accepted or stayed, "the new state is neither the proposal nor the old state", new=new, x=x, proposal=xp)
    require(accepted == bool(expect_accept),
            f"{c['sampler']} ({c['interface']}, history={c['history']}): acceptance decision differs from the Metropolis-Hastings rule "
            f"(log u = {np.log(u):.12g}, log alpha_ref = {log_alpha:.12g}, accepted = {accepted})",
            log_ratio=log_ratio, log_pi_x=lp_x, log_pi_prop=lp_p, x=x, proposal=xp, scale=scale)
    # cached quantities
    if K.iface == "experimental":
        after = snapshot(subject)
        if not accepted:
            for k in before:
                require(same(before[k], after[k]), f"after a rejection the cached '{k}' changed", before=before[k], after=after[k])
        else:
            fresh = snapshot(K.fresh(xp, scale))
            for k in ("current_target_logd", "current_target_grad", "current_likelihood_logd"):
                if k in after:
                    require(close(np.asarray(after[k], dtype=float), np.asarray(fresh[k], dtype=float), 1e-10),
                            f"after an acceptance the cached '{k}' does not belong to the new state", cached=after[k], fresh=fresh[k])


def snapshot(s):
    out = {}
    for k in ("current_point", "current_target_logd", "current_target_grad", "current_likelihood_logd"):
        if hasattr(s, k):
            out[k] = copy.deepcopy(getattr(s, k))
    return out


def same(a, b):
    return np.array_equal(np.asarray(a, dtype=float), np.asarray(b, dtype=float), equal_nan=True)


# ----------------------------------------------------------------------------- non-finite proposals are never accepted

def run_nonfinite(c, rec):
    if c["sampler"] == "PCN":
        c = dict(c, bad_value="nan")  # a -inf likelihood cannot be produced through a Gaussian data distribution without also producing NaN
    tags = dict(tags_of(c), bad=c["bad_value"], bad_grad=c.get("bad_grad", "finite"))
    if rec.classify(tags, True):
        return
    T0 = make_target(c)
    K0 = Kernel(c, T0)
    x = A(c["x"])
    scale = c["scale"]
    xi = A(c["xi"])
    if np.linalg.norm(xi) < 1e-3 or abs(xi[0]) < 1e-3:
        xi = xi + 0.5
    n = c["dim"]
    if c["sampler"] == "CWMH":
        # first component candidate: x with x[0] replaced by x[0] + scale*xi[0]
        xp = x.copy()
        xp[0] = x[0] + scale * xi[0]
        w = xp - x
        thr = float(w @ (x + xp) / 2)
        val = float("nan") if c["bad_value"] == "nan" else float("-inf")
        T = make_target(c, bad=(w, thr, val))
        K = Kernel(c, T)
        for u in (1e-300, 0.5):
            refused, s = refuses(lambda: K.fresh(x, scale))
            if refused:
                rec.count("construction_refused")  # e.g. the default start point lies in the non-finite region
                return
            refused, out = refuses(lambda: K.transition(s, x, xi, [u] + [0.5] * (n - 1)))
            if refused:
                if isinstance(out, Violation):
                    raise out
                rec.count("transition_raised")
                continue
            new, prop, _ = out
            require(maxdiff(prop[0], xp) <= 1e-12, "harness: first CWMH candidate is not the expected one")
            require(new[0] == x[0], f"CWMH ({c['interface']}): a component proposal whose target log-density is {c['bad_value']} was accepted (u = {u})",
                    x=x, candidate=xp, new=new)
            # the rest of the sweep: after the rejected first component the other components are judged from the unchanged state
            cur, lp_cur, tie = x.copy(), T.f(x), False
            for j in range(1, n):
                cand = cur.copy()
                cand[j] = x[j] + scale * xi[j]
                lp_c = T.f(cand)
                if np.isnan(lp_c) or np.isneginf(lp_c):
                    continue
                la = min(0.0, lp_c - lp_cur)
                if abs(np.log(0.5) - la) < 1e-9:
                    tie = True
                    break
                if np.log(0.5) <= la:
                    cur, lp_cur = cand, lp_c
            if not tie:
                require(maxdiff(new, cur) <= 1e-12 * (1 + np.max(np.abs(cur))),
                        f"CWMH ({c['interface']}): after a component proposal with log-density {c['bad_value']} was rejected, the remaining components of "
                        "the sweep were not judged from the unchanged state", new=new, reference=cur, x=x)
                if K.iface == "experimental" and hasattr(s, "current_target_logd"):
                    got = float(np.asarray(s.current_target_logd).reshape(-1)[0])
                    require(close(got, T.f(new), 1e-10), "CWMH: the cached log-density does not belong to the state after the sweep", cached=got, true=T.f(new))
        # the current state itself outside the support, and so is every candidate of the sweep: nothing may be accepted
        T2 = make_target(c, bad=(w, -1e300, val))
        K2 = Kernel(c, T2)
        for u in (1e-300, 0.5):
            refused, s2 = refuses(lambda: K2.fresh(x, scale))
            if refused:
                rec.count("construction_refused_outside_support")
                break
            refused, out = refuses(lambda: K2.transition(s2, x, xi, [u] * n))
            if refused:
                if isinstance(out, Violation) and "harness" not in str(out):
                    raise out
                rec.count("transition_raised_outside_support")
                continue
            new = out[0]
            rec.count("from_outside_support:stay_outside")
            require(maxdiff(new, x) == 0, f"CWMH ({c['interface']}): from a state whose own log-density is {c['bad_value']} component proposals "
                    f"with log-density {c['bad_value']} were accepted (u = {u})", x=x, new=new)
        return
    a_x, B_x = measure_proposal(K0, x, scale)
    xp = a_x + B_x @ xi
    w = xp - x
    if np.linalg.norm(w) < 1e-9:
        rec.inconc("degenerate_proposal")
        return
    thr = float(w @ (x + xp) / 2)
    val = float("nan") if c["bad_value"] == "nan" else float("-inf")
    T = make_target(c, bad=(w, thr, val))
    K = Kernel(c, T)
    refused, s = refuses(lambda: K.fresh(x, scale))
    if refused:
        rec.count("construction_refused")
        return
    for u in (1e-300, 0.5, 1 - 1e-12):
        s = K.fresh(x, scale)
        refused, out = refuses(lambda: K.transition(s, x, xi, [u]))
        if refused:
            if isinstance(out, Violation):
                raise out
            rec.count("transition_raised")  # refusing to move on is not an acceptance
            continue
        new, prop, _ = out
        require(maxdiff(prop[0], xp) <= 1e-9 * (1 + np.max(np.abs(xp))), "harness: proposal differs between the two targets")
        require(maxdiff(new, x) == 0,
                f"{c['sampler']} ({c['interface']}): a proposal whose target log-density is {c['bad_value']} was accepted (u = {u})",
                x=x, proposal=xp, new=new)
    # the current state itself outside the support (a chain started there): a proposal that is outside as well is still never
    # accepted, and a proposal inside the support has acceptance probability min(1, pi(x')/0) = 1
    if c["sampler"] == "MALA" and c.get("bad_grad") == "nan":
        return
    for label, region in (("stay_outside", (w, -1e300, val)), ("to_support", (-w, -thr, val))):
        if label == "to_support" and c["bad_value"] != "-inf":
            continue
        T2 = make_target(c, bad=region)
        K2 = Kernel(c, T2)
        for u in (1e-300, 0.5, 1 - 1e-12):
            refused, s2 = refuses(lambda: K2.fresh(x, scale))
            if refused:
                rec.count("construction_refused_outside_support")
                break
            refused, out = refuses(lambda: K2.transition(s2, x, xi, [u]))
            if refused:
                if isinstance(out, Violation) and "harness" not in str(out):
                    raise out
                rec.count("transition_raised_outside_support")
                continue
            new, prop, _ = out
            rec.count("from_outside_support:" + label)
            if label == "stay_outside":
                require(maxdiff(new, x) == 0, f"{c['sampler']} ({c['interface']}): from a state whose own log-density is {c['bad_value']} a proposal "
                        f"with log-density {c['bad_value']} was accepted (u = {u})", x=x, proposal=prop[0], new=new)
            elif np.isfinite(T2.f(prop[0])):
                require(maxdiff(new, prop[0]) <= 1e-12 * (1 + np.max(np.abs(prop[0]))), f"{c['sampler']} ({c['interface']}): from a state of log-density "
                        f"-inf a proposal inside the support (acceptance probability 1) was rejected (u = {u})", x=x, proposal=prop[0], new=new)


# ----------------------------------------------------------------------------- CWMH sweeps

@st.composite
def cw_cases(draw, tier="quick"):
    c = draw(mh_cases(tier, samplers=("CWMH",)))
    n = c["dim"]
    c["scale_vec"] = draw(st.lists(st.sampled_from([0.05, 0.3, 0.8]), min_size=n, max_size=n))
    c["scale_kind"] = draw(st.sampled_from(["scalar", "vector"]))
    c["u_modes"] = draw(st.lists(st.sampled_from(["above", "below", "generated"]), min_size=n, max_size=n))
    c["deltas"] = draw(st.lists(st.sampled_from([1e-9, 1e-6, 1e-2]), min_size=n, max_size=n))
    c["us"] = draw(st.lists(st.floats(1e-6, 1 - 1e-6), min_size=n, max_size=n))
    return c


def run_cwmh(c, rec):
    tags = dict(tags_of(c), scale=c["scale_kind"])
    T = make_target(c)
    K = Kernel(c, T)
    n = c["dim"]
    c2 = dict(c)
    c2["scale"] = c["scale"] if c["scale_kind"] == "scalar" else A(c["scale_vec"])
    subject, x, scale = must(lambda: prepare_subject(K, c2, A(c["x"])), "bringing the sampler into its history")
    xi = A(c["xi"])
    # measure the component proposals: all candidates are drawn at once from the current state
    s = K.fresh(x, scale)
    _, prop0, _ = K.transition(s, x, np.zeros(n), [0.5] * n)
    require(len(prop0) == n, "CWMH did not evaluate one candidate per component", evaluated=len(prop0))
    require(maxdiff(prop0[0], x) == 0, "CWMH component proposal is not centred at the current state")
    svec = np.broadcast_to(np.asarray(scale, dtype=float), (n,))
    cand_all = x + svec * xi
    # reference sweep
    cur = x.copy()
    lp_cur = T.logpi(cur)
    us, decisions, nontriv = [], [], False
    for j in range(n):
        cand = cur.copy()
        cand[j] = cand_all[j]
        lp_c = T.logpi(cand)
        la = min(0.0, lp_c - lp_cur)
        alpha = float(np.exp(la))
        mode = c["u_modes"][j]
        u = c["us"][j] if mode == "generated" else alpha * (1 + c["deltas"][j]) if mode == "above" else alpha * (1 - c["deltas"][j])
        if not (0 < u < 1):
            u = c["us"][j]
        if abs(np.log(u) - la) < 1e-11:
            rec.inconc("tie")
            return
        acc = np.log(u) <= la
        nontriv = nontriv or la < 0
        us.append(u)
        decisions.append(bool(acc))
        if acc:
            cur, lp_cur = cand, lp_c
    if rec.classify(tags, nontriv):
        return
    new, prop, _ = K.transition(subject, x, xi, us)
    require(len(prop) == n, "CWMH did not evaluate one candidate per component")
    require(maxdiff(new, cur) <= 1e-12 * (1 + np.max(np.abs(cur))),
            f"CWMH ({c['interface']}, history={c['history']}): the state after one sweep differs from the reference sweep that applies the "
            "Metropolis rule to each component in turn", got=new, want=cur, decisions=decisions, x=x, candidates=cand_all)
    if K.iface == "experimental":
        require(close(float(subject.current_target_logd), lp_cur, 1e-10), "CWMH: cached log-density does not belong to the state after the sweep")


SUBCHECKS = [
    SubCheck("C02/mh_identity", run_decision, strategy=mh_cases, n={"quick": 3000, "thorough": 60000}, shards={"quick": 12, "thorough": 16}),
    SubCheck("C02/cwmh_sweep", run_cwmh, strategy=cw_cases, n={"quick": 1500, "thorough": 30000}, shards={"quick": 8, "thorough": 16}),
    SubCheck("C02/nonfinite_rejected", run_nonfinite, strategy=lambda tier: mh_cases(tier, samplers=("MH", "CWMH", "PCN", "MALA")),
             n={"quick": 1000, "thorough": 20000}, shards={"quick": 8, "thorough": 16}),
]
