"""C15 - MAP/ML estimates are true maximisers; direct Gaussian sampling has exact moments."""
import numpy as np
from hypothesis import strategies as st

from vlib.core import SubCheck, Violation, require, close, maxdiff, A, must, refuses
from vlib import gen
from vlib.rand import ScriptedRNG, patched_global

PROPERTY = "C15"
RULE = ("Hypothesis draws linear-Gaussian problems (sizes <= 6, over/under-determined; noise and prior given as cov scalar/vector/"
        "matrix or prec/sqrtprec/sqrtcov; prior mean zero or not; default, Continuous1D, KL and Step domain geometries; matrix- "
        "and function-backed linear models) and smooth unimodal non-linear problems F(x) = B x + c tanh(B x). Oracle: closed-form "
        "posterior mean/covariance computed from the effective parameter-to-output matrix obtained by probing model.forward on "
        "unit vectors; optimality probes around the returned point; scripted normal draws for the direct sampling route. "
        "Non-trivial: covariance not scalar, or prior mean != 0, or non-identity geometry, or non-linear model; distinct = "
        "distinct generated case.")
ASSUMPTIONS = ["an exception from MAP/ML/sample_posterior is a refusal (allowed); a returned point must be the maximiser",
               "closed form tolerance 1e-6 relative for the direct route, 2e-3 for the optimisation route (SciPy default tolerances)"]


@st.composite
def lg_cases(draw, tier="quick"):
    n = draw(st.integers(2, 5))
    m = draw(st.integers(2, 6))
    domk = draw(st.sampled_from(["default", "cont1d", "kl", "step", "default", "cont1d"]))
    dom = draw(gen.geom1d_spec(n, [domk]))
    npar = gen.geom_par_dim(dom)
    c = {"layout": draw(st.sampled_from(gen.LAYOUTS)), "n": n, "m": m, "dom": dom, "backing": draw(st.sampled_from(["matrix", "function", "function", "view", "roll"])),
         "A": draw(gen.mat(m, n, -1, 1)),
         "noise_form": draw(st.sampled_from(["cov_scalar", "cov_vector", "cov_matrix", "prec_scalar", "prec_matrix", "sqrtprec_matrix", "sqrtcov_vector"])),
         "prior_form": draw(st.sampled_from(["cov_scalar", "cov_vector", "cov_matrix", "prec_vector", "sqrtprec_matrix", "sqrtcov_scalar"])),
         "nvar": draw(st.lists(gen.logpos(-1.5, 0.3), min_size=m, max_size=m)), "NG": draw(gen.mat(m, m, -0.4, 0.4)),
         "pvar": draw(st.lists(gen.logpos(-0.7, 0.7), min_size=npar, max_size=npar)), "PG": draw(gen.mat(npar, npar, -0.4, 0.4)),
         "pmean_kind": draw(st.sampled_from(["zero", "vector"])), "pmean": draw(gen.vec(npar, -1, 1)),
         "data": draw(gen.vec(m, -2, 2)), "probe": draw(gen.vec(npar, -1, 1)),
         "nonlinear": False, "cc": 0.0,
         # the covariance materialised beforehand by the public compute_cov() (opens the closed-form route for Gaussians given by
         # prec / sqrtprec / sqrtcov); a user-supplied starting point for MAP
         "compute_cov": draw(st.sampled_from([False, False, True])), "map_x0": draw(st.sampled_from(["none", "none", "vector"])),
         "x0": draw(gen.vec(npar, -2, 2)),
         # overall scale of noise and prior standard deviations (1e-5: covariances ~1e-10)
         "scale_pow": draw(st.sampled_from([0, 0, 0, -5])),
         # the prior object is first built with other values, its covariance materialised, then it is given its values
         "reassign_after_cov": draw(st.sampled_from([False, False, True])),
         # a vague prior: prior standard deviations times 1e4 (variances times 1e8) while the noise keeps its level
         "vague_pow": draw(st.sampled_from([0, 0, 4, 4]))}
    if c["backing"] == "roll":
        # function-backed square model written with numpy functions that act along the last axis of whatever they are given
        c["m"] = m = n
        c["A"] = [[(1.0 if j == i else 0.0) - (0.6 if j == (i - 1) % n else 0.0) for j in range(n)] for i in range(n)]
        c["nvar"], c["data"] = (c["nvar"] * 3)[:m], (c["data"] * 3)[:m]
        c["NG"] = [[0.0] * m for _ in range(m)]
        c["dom"] = draw(gen.geom1d_spec(n, ["default", "cont1d"]))
        if n != npar:
            c["pvar"] = draw(st.lists(gen.logpos(-0.7, 0.7), min_size=n, max_size=n))
            c["PG"] = draw(gen.mat(n, n, -0.4, 0.4))
            c["pmean"], c["probe"], c["x0"] = draw(gen.vec(n, -1, 1)), draw(gen.vec(n, -1, 1)), draw(gen.vec(n, -2, 2))
    if c["backing"] == "view":
        # function-backed model whose forward returns a view of its input (restriction to the first entries)
        c["m"] = m = min(m, n)
        c["A"] = [[1.0 if j == i else 0.0 for j in range(n)] for i in range(m)]
        c["nvar"], c["data"] = c["nvar"][:m], c["data"][:m]
        c["NG"] = [row[:m] for row in c["NG"][:m]]
        c["dom"] = draw(gen.geom1d_spec(n, ["default", "cont1d"]))
        npar2 = n
        if npar2 != npar:
            c["pvar"] = draw(st.lists(gen.logpos(-0.7, 0.7), min_size=npar2, max_size=npar2))
            c["PG"] = draw(gen.mat(npar2, npar2, -0.4, 0.4))
            c["pmean"], c["probe"], c["x0"] = draw(gen.vec(npar2, -1, 1)), draw(gen.vec(npar2, -1, 1)), draw(gen.vec(npar2, -2, 2))
    return c


@st.composite
def nl_cases(draw, tier="quick"):
    c = draw(lg_cases(tier))
    c["nonlinear"] = True
    c["fd_zero_start"] = draw(st.sampled_from([False, False, True]))
    c["far_start"] = draw(st.sampled_from([False, False, True]))
    c["scale_pow"] = 0
    c["vague_pow"] = 0
    if c["backing"] in ("view", "roll"):
        c["backing"] = "function"
    c["cc"] = draw(st.sampled_from([0.2, 0.5]))
    c["dom"] = draw(gen.geom1d_spec(c["n"], ["default", "cont1d"]))
    npar = c["n"]
    c["pvar"] = draw(st.lists(gen.logpos(-0.7, 0.7), min_size=npar, max_size=npar))
    c["PG"] = draw(gen.mat(npar, npar, -0.4, 0.4))
    c["pmean"] = draw(gen.vec(npar, -1, 1))
    c["probe"] = draw(gen.vec(npar, -1, 1))
    c["noise_form"] = draw(st.sampled_from(["cov_scalar", "cov_vector", "cov_matrix"]))
    c["prior_form"] = draw(st.sampled_from(["cov_scalar", "cov_vector", "cov_matrix"]))
    return c


def form_arg(form, var, G):
    """returns (kwargs for cuqi Gaussian, covariance matrix)"""
    var = A(var)
    k = len(var)
    kind, struct = form.split("_")
    if struct == "scalar":
        S = var[0] * np.eye(k)
    elif struct == "vector":
        S = np.diag(var)
    else:
        S = gen.spd_from(G, 0.0) + np.diag(var)
    M = S if kind in ("cov", "sqrtcov") else np.linalg.inv(S)
    if struct == "scalar":
        v = M[0, 0]
        arg = float(np.sqrt(v)) if kind.startswith("sqrt") else float(v)
    elif struct == "vector":
        v = np.diag(M)
        arg = np.sqrt(v) if kind.startswith("sqrt") else v.copy()
    else:
        if kind.startswith("sqrt"):
            L = np.linalg.cholesky(M)
            arg = L.T  # R^T R = M (upper factor); for sqrtcov the symmetric root avoids the recorded convention finding
            if kind == "sqrtcov":
                w, V = np.linalg.eigh(M)
                arg = V @ np.diag(np.sqrt(w)) @ V.T
        else:
            arg = M
    return {kind: arg}, S


def build(c):
    import cuqi
    Am = A(c["A"])
    m, n = Am.shape
    dom = gen.make_geometry(c["dom"])
    cc = c["cc"]
    if c["nonlinear"]:
        F = lambda x: Am @ x + cc * np.tanh(Am @ x)
        J = lambda x: Am + cc * (1 - np.tanh(Am @ x) ** 2)[:, None] * Am
        model = cuqi.model.Model(F, m, dom, jacobian=J)
    elif c["backing"] == "matrix":
        model = cuqi.model.LinearModel(gen.relayout(Am, c.get("layout", "plain")), range_geometry=m, domain_geometry=dom)
    elif c["backing"] == "roll":
        model = cuqi.model.LinearModel(lambda x: x - 0.6 * np.roll(x, 1, axis=-1), lambda y: y - 0.6 * np.roll(y, -1, axis=-1),
                                       range_geometry=m, domain_geometry=dom)
    elif c["backing"] == "view":
        def vadj(y):
            out = np.zeros(n)
            out[:m] = np.asarray(y)
            return out
        model = cuqi.model.LinearModel(lambda x: np.asarray(x)[:m], vadj, range_geometry=m, domain_geometry=dom)
    else:
        fw_, ad_ = (lambda x: Am @ x), (lambda y: Am.T @ y)
        if gen.geom_par_dim(c["dom"]) == n:
            # the SAME forward / adjoint callables first serve another model whose domain geometry has the same number of parameters
            # (plain nodal values); its matrix is assembled - nothing of it may carry over to the model under test
            decoy = cuqi.model.LinearModel(fw_, ad_, range_geometry=m, domain_geometry=cuqi.geometry.Continuous1D(n))
            refuses(lambda: decoy.get_matrix())
        model = cuqi.model.LinearModel(fw_, ad_, range_geometry=m, domain_geometry=dom)
    npar = model.domain_dim
    nkw, Se = form_arg(c["noise_form"], c["nvar"], c["NG"])
    pkw, Sx = form_arg(c["prior_form"], c["pvar"], c["PG"])
    sc = 10.0 ** c.get("scale_pow", 0)
    if sc != 1.0:
        fac = {"cov": sc ** 2, "prec": sc ** -2, "sqrtcov": sc, "sqrtprec": 1 / sc}
        (k1, v1), = nkw.items()
        (k2, v2), = pkw.items()
        nkw, pkw, Se, Sx = {k1: v1 * fac[k1]}, {k2: v2 * fac[k2]}, Se * sc ** 2, Sx * sc ** 2
    vg = 10.0 ** c.get("vague_pow", 0)
    if vg != 1.0:
        (k2, v2), = pkw.items()
        pkw, Sx = {k2: v2 * {"cov": vg ** 2, "prec": vg ** -2, "sqrtcov": vg, "sqrtprec": 1 / vg}[k2]}, Sx * vg ** 2
    mu = (A(c["pmean"]) if c["pmean_kind"] == "vector" else np.zeros(npar)) * sc
    if c.get("reassign_after_cov"):
        (k2, v2), = pkw.items()
        x = cuqi.distribution.Gaussian(mu * 0.5 + 0.1 * sc, **{k2: v2 * 3.0}, geometry=dom, name="x")
        x.compute_cov()
        x.mean = mu.copy()
        setattr(x, k2, v2)
    else:
        x = cuqi.distribution.Gaussian(mu.copy(), **pkw, geometry=dom, name="x")
    y = cuqi.distribution.Gaussian(model(x), **nkw, geometry=m, name="y")
    if c.get("compute_cov"):
        x.compute_cov()
        y.compute_cov()
    BP = cuqi.problem.BayesianProblem(y, x, y=gen.relayout(A(c["data"]) * sc, c.get("layout", "plain")))
    return BP, model, Se, Sx, mu


def inv_ld(M):
    """inverse by Gauss-Jordan elimination with partial pivoting in extended precision (np.longdouble): the reference for
    ill-conditioned closed forms (vague priors), where a double-precision inverse is itself off by eps * condition number"""
    M = np.array(M, dtype=np.longdouble)
    n = M.shape[0]
    aug = np.concatenate([M, np.eye(n, dtype=np.longdouble)], axis=1)
    for col in range(n):
        piv = col + int(np.argmax(np.abs(aug[col:, col])))
        if piv != col:
            aug[[col, piv]] = aug[[piv, col]]
        aug[col] = aug[col] / aug[col, col]
        for r in range(n):
            if r != col:
                aug[r] = aug[r] - aug[r, col] * aug[col]
    return aug[:, n:]


def effective_matrix(model):
    n = model.domain_dim
    cols = []
    for i in range(n):
        e = np.zeros(n)
        e[i] = 1.0
        cols.append(np.asarray(model.forward(e), dtype=float).ravel())
    return np.array(cols).T


def tags_of(c):
    return {"dom": c["dom"]["kind"], "backing": "nonlinear" if c["nonlinear"] else c["backing"], "noise": c["noise_form"], "prior": c["prior_form"],
            "pmean": c["pmean_kind"], "compute_cov": bool(c.get("compute_cov")), "map_x0": c.get("map_x0", "none"),
            "scale_pow": c.get("scale_pow", 0), "reassign_after_cov": bool(c.get("reassign_after_cov")), "vague_pow": c.get("vague_pow", 0)}


def nontrivial(c):
    return c["noise_form"] != "cov_scalar" or c["prior_form"] != "cov_scalar" or c["pmean_kind"] != "zero" or \
        c["dom"]["kind"] in ("kl", "step") or c["nonlinear"]


def check_maximiser(density, xhat, probe, scale, what, tol_rel, slack=1.0):
    """no nearby point has a larger value; gradient vanishes where defined"""
    f0 = float(np.asarray(density.logd(xhat)).reshape(-1)[0])
    for r in (1e-3, 1e-2, 1e-1):
        for sgn in (1.0, -1.0):
            z = xhat + sgn * r * scale * probe
            fz = float(np.asarray(density.logd(z)).reshape(-1)[0])
            require(fz <= f0 + tol_rel * (1 + abs(f0)), f"{what}: a nearby point has a larger log-density than the returned estimate",
                    at=z, value=fz, estimate_value=f0, radius=r)
    refused, g = refuses(lambda: density.gradient(xhat))
    if not refused and g is not None:
        g = np.asarray(g, dtype=float)
        # gradient in units of the posterior standard deviations: (g_i * sd_i)^2 / 2 bounds the attainable gain in log-density
        gs = float(np.max(np.abs(g * scale)))
        require(gs <= (1e-6 * slack if tol_rel <= 1e-9 else 2e-2), f"{what}: the gradient does not vanish at the returned estimate", gradient=g, scaled=gs)


def run_linear(c, rec):
    import cuqi
    tags = tags_of(c)
    if rec.classify(tags, nontrivial(c)):
        return
    refused, built = refuses(lambda: build(c))
    if refused:
        raise Violation(f"building the Bayesian problem failed: {type(built).__name__}: {built}")
        return
    BP, model, Se, Sx, mu = built
    b = A(c["data"]) * 10.0 ** c.get("scale_pow", 0)
    Aeff = effective_matrix(model)
    # (closed form evaluated in extended precision and rounded: with vague priors the information matrix has condition number 1e8+)
    Sei_l, Sxi_l, A_l = inv_ld(Se), inv_ld(Sx), np.array(Aeff, dtype=np.longdouble)
    Lam_l = A_l.T @ Sei_l @ A_l + Sxi_l
    C_l = inv_ld(Lam_l)
    xstar = np.array(C_l @ (A_l.T @ Sei_l @ np.array(b, dtype=np.longdouble) + Sxi_l @ np.array(mu, dtype=np.longdouble)), dtype=float)
    C = np.array(C_l, dtype=float)
    Sei = np.array(Sei_l, dtype=float)
    sd = np.sqrt(np.diag(C))
    probe = A(c["probe"])
    # ---------------- MAP
    mapkw = {"x0": A(c["x0"])} if c.get("map_x0") == "vector" else {}
    refused, xm = refuses(lambda: BP.MAP(disp=False, **mapkw))
    if refused:
        # the only refusal the pinned tree makes: NotImplementedError when a covariance is not available in closed form
        require(isinstance(xm, NotImplementedError), f"BayesianProblem.MAP raised {type(xm).__name__}: {xm}")
        rec.count("MAP_refused:" + type(xm).__name__)
    else:
        route = getattr(xm, "info", {}).get("solver", "?")
        if c.get("compute_cov"):
            rec.count(f"MAP_after_compute_cov:{route}")
        if mapkw:
            rec.count(f"MAP_with_x0:{route}")
        rec.count(f"MAP_route:{route}")
        # (a vague prior makes the closed form ill conditioned: condition number ~ prior variance / noise variance = 1e8 costs 8 digits)
        slack = 10.0 ** max(0, 2 * c.get("vague_pow", 0) - 4)
        tol = 1e-6 * slack if route == "direct" else 2e-3
        xm_arr = np.asarray(xm, dtype=float)
        require(xm_arr.shape == xstar.shape and np.max(np.abs(xm_arr - xstar) / sd) <= tol * max(1.0, np.max(np.abs(xstar) / sd)),
                f"MAP estimate differs from the closed-form posterior mean (route {route}, noise {c['noise_form']}, prior {c['prior_form']}, "
                f"geometry {c['dom']['kind']}, {c['backing']}-backed)", got=xm_arr, want=xstar)
        require(isinstance(xm, cuqi.array.CUQIarray) and xm.geometry == BP.posterior.geometry, "MAP estimate does not carry the posterior geometry")
        check_maximiser(BP.posterior, xm_arr, probe, sd, "MAP", 1e-9 if route == "direct" else 1e-5, slack=slack)
    # ---------------- ML (well posed when A has full column rank)
    # (ML goes through a general-purpose optimiser with absolute tolerances: only judged at unit scale)
    if c.get("scale_pow", 0) == 0 and Aeff.shape[0] >= Aeff.shape[1] and np.linalg.cond(Aeff) < 1e3 and np.min(np.linalg.svd(Aeff, compute_uv=False)) > 1e-6:
        xml_ref = np.linalg.solve(Aeff.T @ Sei @ Aeff, Aeff.T @ Sei @ b)
        refused, xl = refuses(lambda: BP.ML(disp=False))
        if refused:
            rec.count("ML_refused")
        else:
            Cl = np.linalg.inv(Aeff.T @ Sei @ Aeff)
            sdl = np.sqrt(np.diag(Cl))
            xl_arr = np.asarray(xl, dtype=float)
            # ML is obtained by a numerical optimiser with an absolute gradient tolerance (scipy default 1e-5): in a flat direction
            # it may stop far from the exact optimum while being stationary to that tolerance - which is all a numerical maximiser
            # promises. Accepted: close to the exact optimum, or stationary for the reference log-likelihood within 1e-4.
            near = np.max(np.abs(xl_arr - xml_ref) / sdl) <= 5e-3 * max(1.0, np.max(np.abs(xml_ref) / sdl))
            g_ref = Aeff.T @ Sei @ (b - Aeff @ xl_arr)
            stationary = float(np.max(np.abs(g_ref))) <= 1e-4
            require(near or stationary, "ML estimate is neither the weighted least-squares solution nor a stationary point of the log-likelihood "
                    "within the optimiser's tolerance", got=xl_arr, want=xml_ref, gradient=g_ref)
            if near:
                check_maximiser(BP.likelihood, xl_arr, probe, sdl, "ML", 1e-5)
            else:
                rec.count("ML_stationary_only")
    # ---------------- direct Gaussian sampling route
    n = len(xstar)
    E = np.zeros((n + 2, n))
    E[1:n + 1] = np.eye(n)
    E[n + 1] = np.cos(np.arange(n) + 1.0)
    log = []
    with patched_global(ScriptedRNG(normal=list(E.reshape(-1)), fallback_seed=0)) as rng:
        refused, S = refuses(lambda: BP.sample_posterior(n + 2, callback=lambda s, i: log.append((i, np.array(s, dtype=float)))))
        consumed = len(E.reshape(-1)) - len(rng.q["normal"])
    if refused:
        # (with a vague prior the covariance assembled in closed form may lose positive definiteness to round-off: the library
        # then refuses with LinAlgError - a refusal, not a wrong draw)
        require(isinstance(S, NotImplementedError) or (c.get("vague_pow", 0) > 0 and isinstance(S, np.linalg.LinAlgError)),
                f"BayesianProblem.sample_posterior raised {type(S).__name__}: {S}")
        rec.count("sample_refused:" + type(S).__name__)
        return
    direct = consumed == E.size and len(rng.calls) == n + 2 and all(cn[0] == "randn" for cn in rng.calls)
    if not direct:
        rec.count("sample_route_not_direct")
        return
    rec.count("sample_route_direct")
    X = np.asarray(S.samples, dtype=float)
    require(X.shape == (n, n + 2), "direct sampling: wrong sample array shape", shape=X.shape)
    a = X[:, 0]
    Bm = X[:, 1:n + 1] - a[:, None]
    slack_s = 10.0 ** max(0, 2 * c.get("vague_pow", 0) - 4)     # (the reference closed form itself loses digits for vague priors)
    require(np.max(np.abs(a - xstar) / sd) <= 1e-6 * slack_s * max(1.0, np.max(np.abs(xstar) / sd)), "direct sampling: offset of the draws is not the closed-form posterior mean",
            got=a, want=xstar)
    # (the covariance is read from differences of draws: round-off eps * |mean| * |B| per entry; otherwise the documented closed
    # form is accurate to working precision also for vague priors)
    tolC = 1e-6 * float(np.max(np.abs(C))) + 1e-12 * float(np.max(np.abs(a))) * float(np.max(np.abs(Bm))) * (n + 1)
    require(maxdiff(Bm @ Bm.T, C) <= tolC, "direct sampling: covariance of the draws is not the closed-form posterior covariance",
            got=Bm @ Bm.T, want=C, max_err=maxdiff(Bm @ Bm.T, C), tol=tolC)
    require(maxdiff(X[:, n + 1], a + Bm @ E[n + 1]) <= 1e-8 * (float(np.max(np.abs(a))) + float(np.max(np.abs(Bm)))),
            "direct sampling: draws are not affine in the normal vector")
    require([i for i, _ in log] == list(range(n + 2)) and all(maxdiff(s, X[:, i]) == 0 for i, s in log), "direct sampling: callback not called once per draw with that draw")


def run_nonlinear(c, rec):
    import cuqi
    from scipy.optimize import minimize
    tags = tags_of(c)
    if rec.classify(tags, True):
        return
    BP, model, Se, Sx, mu = must(lambda: build(c), "building the problem")
    Am, cc, b = A(c["A"]), c["cc"], A(c["data"])
    Sei, Sxi = np.linalg.inv(Se), np.linalg.inv(Sx)
    F = lambda x: Am @ x + cc * np.tanh(Am @ x)

    def nlp(x):
        r = F(x) - b
        return 0.5 * r @ Sei @ r + 0.5 * (x - mu) @ Sxi @ (x - mu)
    best = None
    starts = [np.ones(len(mu)), mu.copy(), np.zeros(len(mu)), -np.ones(len(mu))]
    for s0 in starts:
        r = minimize(nlp, s0, method="BFGS", options={"gtol": 1e-10})
        r = minimize(nlp, r.x, method="Nelder-Mead", options={"xatol": 1e-10, "fatol": 1e-14, "maxiter": 20000})
        if best is None or r.fun < best.fun:
            best = r
    if c.get("fd_zero_start"):
        # finite-difference gradients switched on, optimisation started from a point with exactly-zero entries
        x0z = np.zeros(len(mu))
        x0z[-1] = 0.5
        refuses(lambda: BP.posterior.enable_FD())
        refused, xm = refuses(lambda: BP.MAP(disp=False, x0=x0z))
        rec.count("fd_zero_start")
    elif c.get("far_start"):
        # a start vector far from the data (log-density of order -1e5 there): where the optimiser stops may not depend on the
        # value of the log-density at the start
        xfar = 40.0 * (1.0 + np.abs(A(c["x0"])))
        refused, xm = refuses(lambda: BP.MAP(disp=False, x0=xfar))
        rec.count("far_start")
    else:
        refused, xm = refuses(lambda: BP.MAP(disp=False))
    if refused:
        rec.count("MAP_refused:" + type(xm).__name__)
        return
    xm_arr = np.asarray(xm, dtype=float)
    # local curvature scale from the Gauss-Newton Hessian at the reference optimum
    Jm = Am + cc * (1 - np.tanh(Am @ best.x) ** 2)[:, None] * Am
    sd = np.sqrt(np.diag(np.linalg.inv(Jm.T @ Sei @ Jm + Sxi)))
    require(nlp(xm_arr) <= best.fun + 1e-5 * (1 + abs(best.fun)), "non-linear MAP: a point with a larger posterior density exists",
            value_at_estimate=-nlp(xm_arr), best=-best.fun, estimate=xm_arr, better=best.x)
    check_maximiser(BP.posterior, xm_arr, A(c["probe"]), sd, "non-linear MAP", 1e-6)
    require(isinstance(xm, cuqi.array.CUQIarray), "MAP estimate is not a CUQIarray")


# ----------------------------------------------------------------------------- a prior with bounded support

@st.composite
def bounded_cases(draw, tier="quick"):
    n = draw(st.integers(1, 3))
    return {"n": n, "a": draw(st.lists(st.sampled_from([1.5, 2.0, 3.0, 5.0]), min_size=n, max_size=n)),
            "b": draw(st.lists(st.sampled_from([1.5, 2.0, 3.0, 5.0]), min_size=n, max_size=n)),
            "data": draw(gen.vec(n, 0.1, 0.9)), "nvar": draw(st.sampled_from([0.01, 0.1, 1.0])),
            "start": draw(st.sampled_from(["default", "default", "inside", "corner0"])), "x0": draw(gen.vec(n, 0.2, 0.8)),
            "probe": draw(gen.vec(n, -1, 1))}


def run_bounded(c, rec):
    """non-Gaussian prior (Beta on (0,1)^n), identity model, Gaussian noise: the unimodal posterior is maximised by the optimisation
    route. The default start vector (ones) lies on the boundary of the support where the posterior density is zero: the call must
    either fail or return a maximiser - never a point of zero density."""
    import cuqi
    from scipy.optimize import minimize
    n = c["n"]
    if rec.classify({"start": c["start"], "n": n}, True):
        return
    a, b, data, nv = A(c["a"]), A(c["b"]), A(c["data"]), c["nvar"]
    x = cuqi.distribution.Beta(a, b, name="x")
    M = cuqi.model.Model(lambda x: x, n, n, gradient=lambda direction, wrt: direction)
    y = cuqi.distribution.Gaussian(M(x), nv, name="y")
    BP = must(lambda: cuqi.problem.BayesianProblem(y, x).set_data(y=data), "building the problem")
    kw = {"inside": {"x0": A(c["x0"])}, "corner0": {"x0": np.zeros(n)}}.get(c["start"], {})
    refused, xm = refuses(lambda: BP.MAP(disp=False, **kw))
    if refused:
        rec.count("MAP_failed:" + type(xm).__name__)
        require(c["start"] != "inside", f"MAP from a start inside the support failed: {type(xm).__name__}: {xm}")
        return
    xm_arr = np.asarray(xm, dtype=float)

    def nlp(z):
        if np.any(z <= 0) or np.any(z >= 1):
            return np.inf
        return float(0.5 * np.sum((z - data) ** 2) / nv - np.sum((a - 1) * np.log(z) + (b - 1) * np.log1p(-z)))
    best = None
    for s0 in (A(c["x0"]), np.full(n, 0.5), np.clip(data, 0.05, 0.95)):
        r = minimize(nlp, s0, method="Nelder-Mead", options={"xatol": 1e-10, "fatol": 1e-13, "maxiter": 20000})
        if best is None or r.fun < best.fun:
            best = r
    require(np.isfinite(nlp(xm_arr)), "MAP returned a point where the posterior density is zero (outside / on the boundary of the support) "
            "instead of failing", estimate=xm_arr, start=c["start"], info=str(getattr(xm, "info", None))[:300])
    require(nlp(xm_arr) <= best.fun + 1e-5 * (1 + abs(best.fun)), "MAP with a bounded-support prior: a point with a larger posterior density exists",
            estimate=xm_arr, better=best.x, value_at_estimate=-nlp(xm_arr), best=-best.fun)


# ----------------------------------------------------------------------------- the problem object is not altered by sampling its prior

@st.composite
def prior_sampling_cases(draw, tier="quick"):
    n = draw(st.integers(3, 6))
    return {"n": n, "A": draw(gen.mat(n, n, -1, 1)), "data": draw(gen.vec(n, -2, 2)), "probe": draw(gen.vec(n, -1, 1)),
            "prior": draw(st.sampled_from(["CMRF", "LMRF", "Gaussian"])), "scale": draw(st.sampled_from([0.3, 1.0])), "seed": draw(st.integers(0, 10 ** 6))}


def run_prior_sampling(c, rec):
    """MAP / sampling are requested from a problem object with a history: after the prior was sampled through the problem (for
    priors without a direct sampler the problem sets up an auxiliary posterior), likelihood, posterior and MAP are what they were"""
    import cuqi
    n = c["n"]
    if rec.classify({"prior": c["prior"]}, c["prior"] != "Gaussian"):
        return
    Am = A(c["A"]) + 2.0 * np.eye(n)
    if c["prior"] == "CMRF":
        x = cuqi.distribution.CMRF(np.zeros(n), c["scale"], name="x")
    elif c["prior"] == "LMRF":
        x = cuqi.distribution.LMRF(0.0, c["scale"], geometry=n, name="x")
    else:
        x = cuqi.distribution.Gaussian(np.zeros(n), c["scale"], name="x")
    y = cuqi.distribution.Gaussian(cuqi.model.LinearModel(Am)(x), 0.1, name="y")
    BP = must(lambda: cuqi.problem.BayesianProblem(y, x).set_data(y=A(c["data"])), "building the problem")
    p = A(c["probe"])
    lik0 = float(np.asarray(BP.likelihood.logd(p)).reshape(-1)[0])
    post0 = float(np.asarray(BP.posterior.logd(p)).reshape(-1)[0])
    np.random.seed(c["seed"] % (2 ** 31))
    try:
        refused, S = refuses(lambda: BP.sample_prior(6))
    finally:
        np.random.seed()
    if refused:
        rec.count("sample_prior_refused:" + type(S).__name__)
    lik1 = float(np.asarray(BP.likelihood.logd(p)).reshape(-1)[0])
    post1 = float(np.asarray(BP.posterior.logd(p)).reshape(-1)[0])
    require(close(lik1, lik0, 1e-12) and close(post1, post0, 1e-12), "after sample_prior() the problem's likelihood / posterior are no longer those of the "
            "problem (a later MAP or posterior sampling would belong to another problem)", likelihood_before=lik0, likelihood_after=lik1,
            posterior_before=post0, posterior_after=post1, prior=c["prior"])


SUBCHECKS = [
    SubCheck("C15/linear_gaussian", run_linear, strategy=lg_cases, n={"quick": 2000, "thorough": 15000}, shards={"quick": 8, "thorough": 16}),
    SubCheck("C15/nonlinear_map", run_nonlinear, strategy=nl_cases, n={"quick": 120, "thorough": 3000}, shards={"quick": 8, "thorough": 16},
             shrink=False),
    SubCheck("C15/bounded_prior_map", run_bounded, strategy=bounded_cases, n={"quick": 120, "thorough": 2000}, shards={"quick": 2, "thorough": 8}, shrink=False),
    SubCheck("C15/problem_history", run_prior_sampling, strategy=prior_sampling_cases, n={"quick": 16, "thorough": 200}, shards={"quick": 8, "thorough": 16}, shrink=False),
]
