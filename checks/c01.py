"""C01 - conditioning a joint distribution preserves the joint log-density."""
import numpy as np
from hypothesis import strategies as st

from vlib.core import SubCheck, Violation, require, close, maxdiff, A, must, refuses
from vlib import gen, graphs

PROPERTY = "C01"
RULE = ("Hypothesis draws a model graph (0-3 hyper-parameters entering through named callables, 1-2 latent vectors among "
        "Gaussian(cov/prec/sqrtprec/sqrtcov)/GMRF/LMRF/CMRF/Laplace/Normal, 1-3 data nodes Gaussian/Normal/Laplace/Lognormal "
        "over matrix, function-pair, non-linear and plain-callable forward maps), a complete admissible assignment, a "
        "partition fixed/free and a conditioning program (order of the fixed variables, grouping into successive calls, "
        "positional vs keyword per call, positional vs keyword final evaluation). Non-trivial: >=1 fixed and >=1 free "
        "variable and >=1 hyper-parameter entering through a callable; distinct = distinct generated case.")
ASSUMPTIONS = ["reference = sum of scipy.stats / docstring log-densities of all factors with fully resolved parameters (the library's logd "
               "of a distribution is its normalised logpdf); tolerance 1e-9 relative",
               "names are always given explicitly (name=...)"]


@st.composite
def program_cases(draw, tier="quick"):
    spec = draw(graphs.graph_spec(max_dim=4 if tier == "quick" else 6, allow_far=True))
    names = graphs.var_names(spec)
    fixed_mask = draw(st.lists(st.booleans(), min_size=len(names), max_size=len(names)))
    fixed = [n for n, f in zip(names, fixed_mask) if f]
    order = draw(st.permutations(fixed)) if fixed else []
    # grouping: sizes of successive calls
    sizes = []
    rem = len(order)
    while rem > 0:
        k = draw(st.integers(1, rem))
        sizes.append(k)
        rem -= k
    return {"graph": spec, "fixed_order": list(order), "group_sizes": sizes,
            "positional": draw(st.lists(st.booleans(), min_size=len(sizes) + 1, max_size=len(sizes) + 1)),
            "final_positional": draw(st.booleans()), "stack": draw(st.booleans())}


def val(spec, name):
    v = np.array(spec["values"][name], dtype=float)
    if name in [h["name"] for h in spec["hypers"]]:
        return float(v[0])
    return v


def condition_program(obj, c, rec):
    """apply the conditioning program to obj; returns (reduced object, list of call descriptions)"""
    spec = c["graph"]
    todo = list(c["fixed_order"])
    calls = []
    gi = 0
    rec._c01_flags = {"cond_on_posterior": False}
    while todo:
        if type(obj).__name__ == "Posterior":
            rec._c01_flags["cond_on_posterior"] = True
        size = c["group_sizes"][gi] if gi < len(c["group_sizes"]) else len(todo)
        pos = c["positional"][gi] if gi < len(c["positional"]) else False
        gi += 1
        names_now = obj.get_parameter_names()
        if pos:
            # positional arguments follow the current parameter order: take the longest admissible prefix
            k = 0
            while k < len(names_now) and k < size and names_now[k] in todo:
                k += 1
            if k > 0:
                group = names_now[:k]
                obj = must(lambda: obj(*[val(spec, n) for n in group]), f"conditioning positionally on {group}")
                calls.append(("pos", group))
                todo = [t for t in todo if t not in group]
                continue
        group = todo[:size]
        obj = must(lambda: obj(**{n: val(spec, n) for n in group}), f"conditioning by keyword on {group}")
        calls.append(("kw", group))
        todo = todo[size:]
    return obj, calls


def run_program(c, rec):
    import cuqi
    spec = c["graph"]
    names = graphs.var_names(spec)
    fixed = set(c["fixed_order"])
    free = [n for n in names if n not in fixed]
    hyper_used = any(n.get("hyper") for n in spec["latents"] + spec["data"])
    two_arg = any(n.get("hyper2") for n in spec["data"])
    dens = must(lambda: graphs.build(spec), "building the densities")
    J = must(lambda: cuqi.distribution.JointDistribution(*dens), "building the joint distribution")
    allvals = {n: val(spec, n) for n in names}
    full = float(J.logd(**allvals))
    want = graphs.ref_joint_logd(spec, spec["values"])
    failure = None
    try:
        obj, calls = condition_program(J, c, rec)
    except Violation as v:
        failure, obj, calls = v, None, []
    kind = type(obj).__name__ if obj is not None else "failed"
    tags = {"result": kind, "ncalls": min(len(calls), 3), "nfree": min(len(free), 3),
            "cond_on_posterior": rec._c01_flags["cond_on_posterior"], "two_arg_callable": two_arg}
    if rec.classify(tags, bool(fixed) and bool(free) and hyper_used):
        return
    if failure is not None:
        raise failure
    if not np.isfinite(want):
        rec.inconc("reference_not_finite")
        return
    require(close(full, want, 1e-9), "joint log-density differs from the sum of the reference log-densities of its factors",
            got=full, want=want)
    # the joint evaluated positionally
    require(close(float(J.logd(*[allvals[n] for n in J.get_parameter_names()])), full, 1e-12), "positional and keyword evaluation of the joint differ")
    # the reduced object at the remaining variables
    pn = list(obj.get_parameter_names())
    require(set(pn) == set(free), "the reduced object's parameters are not the free variables", got=pn, want=free, calls=calls)
    if c["final_positional"]:
        got = must(lambda: obj.logd(*[allvals[n] for n in pn]), f"evaluating the {kind} positionally")
    else:
        got = must(lambda: obj.logd(**{n: allvals[n] for n in pn}), f"evaluating the {kind} by keyword")
    got = float(np.asarray(got, dtype=float).reshape(-1)[0])
    require(close(got, full, 1e-9),
            f"log-density of the {kind} obtained by conditioning differs from the joint log-density at the complete assignment",
            got=got, joint=full, calls=calls, free=free)
    # object life cycle: a shallow and a deep copy of the reduced object (and of the joint) are the same distribution, and making
    # them leaves the originals as they were
    import copy as _copy
    for label, maker in (("copy.copy", _copy.copy), ("copy.deepcopy", _copy.deepcopy)):
        for what, o, args, ref in ((kind, obj, {n: allvals[n] for n in pn}, got), ("joint", J, dict(allvals), full)):
            refused, dup = refuses(lambda: maker(o))
            if refused:
                rec.count(f"{label}_refused:{what}")
                continue
            gd = float(np.asarray(must(lambda: dup.logd(**args), f"evaluating a {label} of the {what}"), dtype=float).reshape(-1)[0])
            require(close(gd, ref, 1e-12), f"a {label} of the {what} evaluates to a different log-density than the object it was copied from",
                    copy_value=gd, original_value=ref)
    # a different route: everything in one keyword call
    if len(calls) > 1:
        obj1 = J(**{n: allvals[n] for n in c["fixed_order"]})
        g1 = float(np.asarray(obj1.logd(**{n: allvals[n] for n in obj1.get_parameter_names()})).reshape(-1)[0])
        require(close(g1, got, 1e-9), "conditioning in one step and in several steps disagree", one=g1, several=got)
    # second use: the joint and its factors must be unaffected by the conditioning that was just done
    require(close(float(J.logd(**allvals)), full, 1e-12), "the joint evaluates differently after it has been conditioned", before=full,
            after=float(J.logd(**allvals)))
    if calls:
        obj2, _ = condition_program(J, c, rec)
        g2 = float(np.asarray(obj2.logd(**{n: allvals[n] for n in obj2.get_parameter_names()})).reshape(-1)[0])
        require(close(g2, got, 1e-12), "running the same conditioning program on the same joint a second time gives a different log-density",
                first=got, second=g2, calls=calls)
        # and the first result is still what it was
        g1b = float(np.asarray(obj.logd(**{n: allvals[n] for n in pn})).reshape(-1)[0])
        require(close(g1b, got, 1e-12), "the first reduced object changed after the joint was conditioned again", first=got, now=g1b)
    # stacked vector view
    if c["stack"] and isinstance(obj, cuqi.distribution.JointDistribution) and len(pn) >= 1 and hasattr(obj, "_as_stacked") \
            and kind == "JointDistribution":
        S = obj._as_stacked()
        vec = np.concatenate([np.atleast_1d(np.asarray(allvals[n], dtype=float)) for n in pn])
        gs = float(np.asarray(must(lambda: S.logd(vec), "stacked view logd")).reshape(-1)[0])
        require(close(gs, full, 1e-9), "stacked-vector view evaluates to a different number", got=gs, want=full)
        require(S.dim == len(vec), "stacked view dimension is not the sum of the dimensions")
        # a stacked vector with missing or surplus entries is an evaluation with missing / unknown variables
        for label, bad in (("one entry short", vec[:-1]), ("two entries too long", np.concatenate([vec, [0.5, 0.5]]))):
            refused, out = refuses(lambda: S.logd(bad))
            require(refused, f"the stacked-vector view returned a number for a vector that is {label}", dim=int(S.dim), length=len(bad),
                    got=None if refused else np.asarray(out, dtype=float).reshape(-1)[:1])
            rec.count("stacked_wrong_length_refused")
    # malformed evaluations must be refused
    if pn:
        kw = {n: allvals[n] for n in pn}
        miss = dict(kw)
        miss.pop(pn[-1])
        if kind != "Likelihood" or True:
            refused, r = refuses(lambda: obj.logd(**miss)) if miss else refuses(lambda: obj.logd())
            require(refused, f"{kind}.logd with a missing variable returned a number", got=None if refused else r)
        unk = dict(kw)
        unk["nosuchvar"] = 1.0
        refused, r = refuses(lambda: obj.logd(**unk))
        require(refused, f"{kind}.logd with an unknown variable returned a number")
        refused, r = refuses(lambda: obj.logd(allvals[pn[0]], **{pn[0]: allvals[pn[0]]}, **{n: allvals[n] for n in pn[1:]}))
        require(refused, f"{kind}.logd with a variable given positionally and by keyword returned a number")
        refused, r = refuses(lambda: obj.logd(*[allvals[n] for n in pn], 1.0))
        require(refused, f"{kind}.logd with too many positional arguments returned a number")


# ----------------------------------------------------------------------------- posterior / multiple likelihood / BayesianProblem

@st.composite
def posterior_cases(draw, tier="quick"):
    spec = draw(graphs.graph_spec(allow_far=True, max_hypers=0, max_latents=1, max_data=3, max_dim=4,
                                  latent_fams=["Gaussian", "GMRF", "LMRF", "CMRF", "Laplace", "Normal"]))
    return {"graph": spec, "route": draw(st.sampled_from(["joint_kw", "joint_pos", "problem_init", "problem_set_data"])),
            "x2": draw(gen.vec(spec["latents"][0]["dim"], -1, 1))}


def run_posterior(c, rec):
    import cuqi
    spec = c["graph"]
    dnames = [n["name"] for n in spec["data"]]
    lat = spec["latents"][0]["name"]
    tags = {"ndata": len(dnames), "route": c["route"], "prior": spec["latents"][0]["fam"]}
    if rec.classify(tags, True):
        return
    dens = graphs.build(spec)
    data = {n: val(spec, n) for n in dnames}
    x = val(spec, lat)
    route = c["route"]
    if route == "joint_kw":
        P = must(lambda: cuqi.distribution.JointDistribution(*dens)(**data), "conditioning on data")
    elif route == "joint_pos":
        J = cuqi.distribution.JointDistribution(*dens)
        P = must(lambda: J(*[data[n] for n in J.get_parameter_names()[: len(dnames)]]), "conditioning on data positionally")
    elif route == "problem_init":
        BP = must(lambda: cuqi.problem.BayesianProblem(*dens, **data), "BayesianProblem(..., **data)")
        P = BP._target if len(dnames) > 1 else BP.posterior
    else:
        BP = cuqi.problem.BayesianProblem(*dens)
        must(lambda: BP.set_data(**data), "set_data")
        P = BP._target if len(dnames) > 1 else BP.posterior
    expected = "Posterior" if len(dnames) == 1 else "MultipleLikelihoodPosterior"
    require(type(P).__name__ == expected, "conditioning on all data did not give the expected posterior type", got=type(P).__name__, want=expected)
    for xv in (x, A(c["x2"])):
        vals = dict(spec["values"])
        vals[lat] = list(xv)
        want = graphs.ref_joint_logd(spec, vals)
        if not np.isfinite(want):
            continue
        got = float(np.asarray(P.logd(xv)).reshape(-1)[0])
        require(close(got, want, 1e-9), f"{expected}.logd is not log-likelihood(s) plus log-prior", got=got, want=want)
        gk = float(np.asarray(P.logd(**{lat: xv})).reshape(-1)[0])
        require(close(gk, got, 1e-12), "keyword and positional evaluation of the posterior differ")
        if expected == "Posterior":
            parts = float(np.asarray(P.likelihood.logd(xv)).reshape(-1)[0]) + float(np.asarray(P.prior.logd(xv)).reshape(-1)[0])
            require(close(parts, got, 1e-10), "posterior.logd != likelihood.logd + prior.logd")
        else:
            require(close(float(np.asarray(P.logpdf(xv)).reshape(-1)[0]), got, 1e-12), "MultipleLikelihoodPosterior.logpdf != logd")
    # the caller's buffer re-used: the same array object, overwritten in place between two evaluations (as optimisers and
    # finite-difference loops do), must give the value of its current content
    x2 = A(c["x2"])
    vals2 = dict(spec["values"])
    vals2[lat] = list(x2)
    want2 = graphs.ref_joint_logd(spec, vals2)
    if np.isfinite(want2):
        buf = np.array(x, dtype=float)
        first = float(np.asarray(P.logd(buf)).reshape(-1)[0])
        buf[:] = x2
        second = float(np.asarray(P.logd(buf)).reshape(-1)[0])
        require(close(second, want2, 1e-9), f"{expected}.logd evaluated on a buffer that was overwritten in place returns the value of "
                "the buffer's earlier content (or a mixture)", got=second, want=want2, value_at_earlier_content=first)
    refused, _ = refuses(lambda: P.logd())
    require(refused, "posterior.logd() without the variable returned a number")
    refused, _ = refuses(lambda: P.logd(x, **{lat: x}))
    require(refused, "posterior.logd with the variable given twice returned a number")


SUBCHECKS = [
    SubCheck("C01/conditioning_programs", run_program, strategy=program_cases, n={"quick": 1500, "thorough": 40000},
             shards={"quick": 8, "thorough": 16}),
    SubCheck("C01/posterior_views", run_posterior, strategy=posterior_cases, n={"quick": 600, "thorough": 15000},
             shards={"quick": 4, "thorough": 16}),
]
