"""C14 - chains are continuous, resumable from a checkpoint, and recorded faithfully."""
import copy
import os
import shutil
import tempfile

import numpy as np
from hypothesis import strategies as st

from vlib.core import SubCheck, Violation, require, close, maxdiff, A, must, refuses
from vlib import gen

PROPERTY = "C14"
RULE = ("Hypothesis draws a sampler (every sampler of cuqi.experimental.mcmc: MH, CWMH, PCN, ULA, MALA, NUTS, LinearRTO, "
        "RegularizedLinearRTO, UGLA, Conjugate, ConjugateApprox, Direct; HybridGibbs; every sampler of cuqi.sampler and its Gibbs), a small "
        "target it accepts with generated coefficients, N, M in 0..12, a split / checkpoint position c in 0..N, warm-up length Nb in "
        "{0,3,10}, burn-in and a seed for the global random stream. Non-trivial: 0 < c < N and the chain moves after position c; "
        "distinct = distinct generated case.")
ASSUMPTIONS = ["'the same random stream' = numpy's global state (seeded, or captured with get_state and restored)",
               "'exactly the same chain' = bitwise equal arrays",
               "RegularizedLinearRTO is run with a numeric stepsize (the automatic choice uses a randomised norm estimate at construction)"]

EXP = ["MH", "CWMH", "PCN", "ULA", "MALA", "NUTS", "LinearRTO", "RegularizedLinearRTO", "UGLA", "Conjugate", "ConjugateApprox", "Direct"]
LEG = ["MH", "CWMH", "pCN", "ULA", "MALA", "NUTS", "LinearRTO", "UGLA"]


@st.composite
def base_case(draw, names, tier="quick"):
    n = draw(st.integers(2, 3))
    return {"sampler": draw(st.sampled_from(names)), "n": n, "m": draw(st.integers(2, 4)),
            "G": draw(gen.mat(3, 3, -0.6, 0.6)), "a": draw(gen.vec(3, -1, 1)), "A": draw(gen.mat(4, 3, -1, 1)), "data": draw(gen.vec(4, -2, 2)),
            "x0": draw(gen.vec(3, -1, 1)), "scale": draw(st.sampled_from([0.1, 0.4, 0.8])),
            "N": draw(st.integers(1, 12)), "M": draw(st.integers(0, 8)), "Nb": draw(st.sampled_from([0, 0, 3, 10])),
            "cfrac": draw(st.floats(0, 1)), "seed": draw(st.integers(0, 10 ** 6)),
            # memory layout of the start vector (Fortran order is the same for vectors; non-contiguous, negative strides, read-only)
            "layout": draw(st.sampled_from(gen.LAYOUTS)),
            # a history of warm-up and sampling phases in any order
            "phases": draw(st.one_of(st.just([]), st.lists(st.tuples(st.sampled_from(["sample", "warmup"]), st.integers(0, 4)), min_size=2, max_size=4)))}


FAILT = {"n": None}     # countdown to one failure of the user's log-density (armed by the exception-safety part of C14/experimental)


def smooth_target(c):
    import cuqi
    n = c["n"]
    H = gen.spd_from(A(c["G"])[:n, :n], 0.6)
    a = A(c["a"])[:n]
    def f(x):
        # (a user log-density that fails once - a transient error, an interrupt - when the harness arms FAILT)
        if FAILT["n"] is not None:
            FAILT["n"] -= 1
            if FAILT["n"] <= 0:
                FAILT["n"] = None
                raise RuntimeError("user log-density failed once")
        return float(-0.5 * (np.asarray(x) - a) @ H @ (np.asarray(x) - a))
    g = lambda x: -(H @ (np.asarray(x) - a))
    return cuqi.distribution.UserDefinedDistribution(dim=n, logpdf_func=f, gradient_func=g)


def linear_posterior(c, prior="gauss"):
    import cuqi
    n, m = c["n"], c["m"]
    Am = A(c["A"])[:m, :n]
    b = A(c["data"])[:m]
    if prior == "gauss":
        x = cuqi.distribution.Gaussian(np.zeros(n), 1.5, name="x")
    elif prior == "lmrf":
        x = cuqi.distribution.LMRF(0, 0.7, geometry=n, name="x")
    else:
        x = cuqi.implicitprior.RegularizedGaussian(np.zeros(n), 1.5, constraint="nonnegativity", name="x")
    y = cuqi.distribution.Gaussian(cuqi.model.LinearModel(Am)(x), 0.3, name="y")
    return cuqi.distribution.JointDistribution(y, x)(y=b)


def conj_posterior(c, approx=False):
    import cuqi
    D = cuqi.distribution
    n = c["n"] + 1
    s = D.Gamma(1.2, 0.7, name="s")
    xv = A(c["data"])[:n]
    if approx:
        x = D.LMRF(0, lambda s: 1.0 / s, geometry=n, name="x")
    else:
        x = D.Gaussian(np.zeros(n), cov=lambda s: 1.0 / s, name="x")
    return D.JointDistribution(x, s)(x=xv)


STARTS = []     # (array handed to a sampler as its start, copy of its values) of the current case


def start(c, x0):
    """the start vector in the case's memory layout; remembered so that the caller's array can be compared afterwards"""
    arr = gen.relayout(x0, c.get("layout", "plain"))
    STARTS.append((arr, np.array(arr, dtype=float, copy=True)))
    return arr


def starts_unaltered():
    for arr, vals in STARTS:
        require(maxdiff(arr, vals) == 0, "the sampler altered the array that was passed as its initial point", passed=vals, now=np.array(arr))
    del STARTS[:]


def make_exp(c, callback=None):
    import cuqi
    E = cuqi.experimental.mcmc
    name, n = c["sampler"], c["n"]
    x0 = A(c["x0"])[:n]
    if name in ("MH", "CWMH"):
        return getattr(E, name)(smooth_target(c), scale=c["scale"], initial_point=start(c, x0), callback=callback)
    if name in ("ULA", "MALA"):
        return getattr(E, name)(smooth_target(c), scale=c["scale"] * 0.2, initial_point=start(c, x0), callback=callback)
    if name == "NUTS":
        return E.NUTS(smooth_target(c), initial_point=start(c, x0), max_depth=4, callback=callback)
    if name == "PCN":
        return E.PCN(linear_posterior(c), scale=c["scale"], initial_point=start(c, x0), callback=callback)
    if name == "LinearRTO":
        return E.LinearRTO(linear_posterior(c), initial_point=start(c, x0), callback=callback)
    if name == "RegularizedLinearRTO":
        return E.RegularizedLinearRTO(linear_posterior(c, "reg"), initial_point=np.abs(x0), stepsize=0.05, maxit=30, callback=callback)
    if name == "UGLA":
        return E.UGLA(linear_posterior(c, "lmrf"), initial_point=start(c, x0), callback=callback)
    if name == "Conjugate":
        return E.Conjugate(conj_posterior(c), callback=callback)
    if name == "ConjugateApprox":
        return E.ConjugateApprox(conj_posterior(c, approx=True), callback=callback)
    if name == "Direct":
        return E.Direct(cuqi.distribution.Gaussian(A(c["a"])[:n], 0.5), callback=callback)
    raise ValueError(name)


def make_leg(c, callback=None):
    import cuqi
    L = cuqi.sampler
    name, n = c["sampler"], c["n"]
    x0 = A(c["x0"])[:n]
    if name in ("MH", "CWMH"):
        return getattr(L, name)(smooth_target(c), scale=c["scale"], x0=start(c, x0), callback=callback)
    if name in ("ULA", "MALA"):
        return getattr(L, name)(smooth_target(c), scale=c["scale"] * 0.2, x0=start(c, x0), callback=callback)
    if name == "NUTS":
        return L.NUTS(smooth_target(c), x0=start(c, x0), max_depth=4, adapt_step_size=0.05, callback=callback)
    if name == "pCN":
        return L.pCN(linear_posterior(c), scale=c["scale"], x0=start(c, x0), callback=callback)
    if name == "LinearRTO":
        return L.LinearRTO(linear_posterior(c), x0=start(c, x0), callback=callback)
    if name == "UGLA":
        return L.UGLA(linear_posterior(c, "lmrf"), x0=start(c, x0), callback=callback)
    raise ValueError(name)


def chain_of(s, T=None):
    """stored chain as a (dim, T) array (T = 0 gives an empty array)"""
    X = np.array(s.get_samples().samples, dtype=float, copy=True)
    if X.size == 0:
        return np.zeros((0, 0))
    return X.reshape(-1, X.shape[-1]) if X.ndim >= 2 else X.reshape(1, -1)


def state_equal(a, b):
    if set(a["state"].keys()) != set(b["state"].keys()):
        return False
    for k in a["state"]:
        va, vb = a["state"][k], b["state"][k]
        if isinstance(va, str) or isinstance(vb, str) or va is None or vb is None:
            if not (isinstance(va, type(vb)) and va == vb):
                return False
        elif not np.array_equal(np.asarray(va, dtype=float), np.asarray(vb, dtype=float), equal_nan=True):
            return False
    return True


# ----------------------------------------------------------------------------- experimental samplers

def run_exp(c, rec):
    del STARTS[:]
    name = c["sampler"]
    N, M, Nb = c["N"], c["M"], c["Nb"]
    cpos = int(round(c["cfrac"] * N))
    tags = {"sampler": name, "warmup": Nb > 0}
    log = []
    cb = lambda sample, idx: log.append((idx, np.array(sample, dtype=float).reshape(-1).copy()))
    # ---- run A: uninterrupted, with callback
    np.random.seed(c["seed"])
    try:
        sA = must(lambda: make_exp(c, cb), f"constructing {name}")
        if Nb:
            sA.warmup(Nb)
        sA.sample(N + M)
        XA = chain_of(sA)
        moved = XA.shape[1] > Nb + cpos + 1 and maxdiff(XA[:, Nb + cpos:].T, np.tile(XA[:, Nb + cpos], (XA.shape[1] - Nb - cpos, 1))) > 0 if XA.size else False
        if rec.classify(tags, 0 < cpos < N and bool(moved)):
            return
        # (iii) recording
        T = Nb + N + M
        require(XA.shape[-1] == T, "the recorded chain does not have one entry per transition", got=XA.shape, transitions=T)
        require(len(log) == T, "the callback was not invoked exactly once per transition", calls=len(log), transitions=T)
        require([i for i, _ in log] == list(range(T)), "callback indices are not the consecutive positions in the chain", indices=[i for i, _ in log])
        for i, smp in log:
            require(maxdiff(XA[:, i], smp) == 0, "a stored chain entry differs from the state handed to the callback at that time "
                    "(entry altered later or recorded wrongly)", index=i)
        # ---- (iii-b) a callback that looks at the sampler: the state it is handed is already part of the record; and a callback that
        # fails once (the user catches the exception and goes on): no transition gets lost
        if N + M >= 2:
            np.random.seed(c["seed"])
            holder, seen_ns, fail_at = {}, [], 1 + (c["seed"] % (N + M - 1))

            def cb2(sample, idx):
                seen_ns.append((idx, holder["s"].get_samples().Ns))
                if idx == Nb + fail_at and not holder.get("failed"):
                    holder["failed"] = True
                    raise RuntimeError("user callback failed once")
            holder["s"] = sR = make_exp(c, cb2)
            if Nb:
                sR.warmup(Nb)
            refused, err = refuses(lambda: sR.sample(N + M))
            require(refused and "user callback failed once" in str(err), "harness: the failing callback did not interrupt the run")
            done = chain_of(sR).shape[-1] - Nb if chain_of(sR).size else 0
            must(lambda: sR.sample(N + M - done), "continuing after a callback failure")
            XR = chain_of(sR)
            require(XR.shape == XA.shape and maxdiff(XR, XA) == 0, f"{name}: a run that was interrupted by a failing callback and continued is not the chain of "
                    "the uninterrupted run (a transition was made but not recorded, or recorded twice)", interrupted=XR.shape, uninterrupted=XA.shape)
            require(all(ns == i + 1 for i, ns in seen_ns), f"{name}: at the time of the callback the state it is handed is not yet part of the recorded chain",
                    pairs=seen_ns[:6])
        # ---- (iii-c) the user's log-density fails once in the middle of a transition; the user catches the error and goes on:
        # from then on the sampler makes the transitions a fresh sampler started at the same point makes from the same stream
        if name in ("MH", "CWMH", "ULA", "MALA") and N >= 2:
            np.random.seed(c["seed"])
            sF = make_exp(c)
            sF.sample(1)
            FAILT["n"] = 2 + c["seed"] % 4
            try:
                refuses(lambda: sF.sample(3))
            finally:
                FAILT["n"] = None
            xc = np.array(sF.current_point, dtype=float).reshape(-1).copy()
            np.random.seed(4242)
            must(lambda: sF.sample(3), "sampling on after a failure of the user's log-density")
            cont = chain_of(sF)[:, -3:]
            np.random.seed(4242)
            fresh = make_exp(dict(c, x0=list(xc) + [0.0] * (3 - len(xc))))
            fresh.sample(3)
            want = chain_of(fresh)[:, -3:]
            require(maxdiff(cont, want) == 0, f"{name}: after an exception of the user's log-density in the middle of a transition the sampler does not continue "
                    "like a fresh sampler started at the same point (its cached evaluations no longer belong to its current point)", continued=cont, fresh=want)
        # ---- (i) continuity: N then M
        np.random.seed(c["seed"])
        sB = make_exp(c)
        if Nb:
            sB.warmup(Nb)
        sB.sample(N)
        sB.sample(M)
        XB = chain_of(sB)
        require(XB.shape == XA.shape and maxdiff(XA, XB) == 0, f"{name}: sample(N) then sample(M) differs from sample(N+M) under the same random stream",
                N=N, M=M)
        # ---- (iii') recording over other phase orders (warm-up after sampling, a second warm-up, ...)
        phases = c.get("phases") or []
        if phases:
            log2 = []
            cb2 = lambda sample, idx: log2.append((idx, np.array(sample, dtype=float).reshape(-1).copy()))
            np.random.seed(c["seed"] + 1)
            sE = make_exp(c, cb2)
            done, refused_phase = 0, False
            for kind, cnt in phases:
                r, _ = refuses(lambda: sE.warmup(cnt) if kind == "warmup" else sE.sample(cnt))
                if r:
                    refused_phase = True      # a sampler may refuse a phase order; what was recorded until then must still be right
                    break
                done += cnt
            XE = chain_of(sE)
            if not refused_phase:
                require(XE.shape[-1] == done, f"{name}: after the phases {phases} the chain does not have one entry per transition", got=XE.shape, transitions=done)
                require(len(log2) == done, f"{name}: after the phases {phases} the callback was not invoked once per transition", calls=len(log2), transitions=done)
                require([i for i, _ in log2] == list(range(done)), f"{name}: over the phases {phases} the callback indices are not the consecutive positions in the chain",
                        indices=[i for i, _ in log2])
                for i, smp in log2:
                    require(maxdiff(XE[:, i], smp) == 0, f"{name}: over the phases {phases} a stored entry differs from the state handed to the callback", index=i)
                rec.count("phase_orders_checked")
            else:
                rec.count("phase_order_refused")
        # ---- (ii) checkpoint at position c of the sampling phase
        tmp = tempfile.mkdtemp(prefix="c14_", dir="/tmp")
        try:
            path = os.path.join(tmp, "ckpt.pickle")
            np.random.seed(c["seed"])
            sC = make_exp(c)
            if Nb:
                sC.warmup(Nb)
            sC.sample(cpos)
            refused, err = refuses(lambda: sC.save_checkpoint(path))
            require(not refused, f"{name}: save_checkpoint failed", err=str(err))
            stream = np.random.get_state()
            sC.sample(N - cpos)
            XC = chain_of(sC)
            tail = XC[:, Nb + cpos:]
            require(XC.shape[-1] == Nb + N and maxdiff(XC, XA[:, :Nb + N]) == 0, "harness: run C differs from run A")
            np.random.seed(12345)  # a different stream while constructing the new sampler
            sD = make_exp(c)
            refused, err = refuses(lambda: sD.load_checkpoint(path))
            require(not refused, f"{name}: load_checkpoint into a freshly constructed sampler failed", err=str(err))
            np.random.set_state(stream)
            sD.sample(N - cpos)
            XD = chain_of(sD)
            require(XD.shape[-1] == N - cpos, "resumed run has wrong length")
            if N - cpos > 0:
                require(maxdiff(XD, tail) == 0,
                        f"{name}: the run resumed from a checkpoint at position {cpos} does not make the transitions of the uninterrupted run",
                        resumed=XD, uninterrupted=tail, Nb=Nb)
        finally:
            shutil.rmtree(tmp, ignore_errors=True)
        # ---- (iv) reinitialize
        np.random.seed(777)
        fresh = make_exp(c)
        fresh.initialize()
        st_fresh = copy.deepcopy(fresh.get_state())
        L_prev = int(chain_of(sA).shape[-1]) if chain_of(sA).size else 0      # (the chain is read right before the re-initialisation)
        np.random.seed(777)
        must(lambda: sA.reinitialize(), "reinitialize")
        require(state_equal(sA.get_state(), st_fresh), f"{name}: reinitialize() does not return the sampler to the state it was constructed with",
                after=str(sA.get_state()["state"])[:400], fresh=str(st_fresh["state"])[:400])
        if c["seed"] % 2 == 0 or L_prev == 0:
            require(chain_of(sA).size == 0, "reinitialize() did not clear the history")
        # the re-initialised sampler run again for the SAME number of states as the chain read before, under ANOTHER random stream,
        # without the chain being read in between: what it hands out is the chain it just made (the states its callback saw)
        if L_prev >= 1:
            N = L_prev
            del log[:]
            np.random.seed(c["seed"] + 12345)
            must(lambda: sA.sample(N), "sample after reinitialize")
            X2 = chain_of(sA)
            require(X2.shape[-1] == N and len(log) == N, "after reinitialize(): the chain does not have the requested length", got=X2.shape, calls=len(log))
            for (i, smp), col in zip(log, X2.T):
                require(maxdiff(col, smp) == 0, f"{name}: after reinitialize() the recorded chain is not the chain of the new run (a state differs "
                        "from the state handed to the callback)", index=i, stored=col, callback=smp)
        starts_unaltered()
    finally:
        del STARTS[:]
        np.random.seed()


# ----------------------------------------------------------------------------- legacy samplers

def run_leg(c, rec):
    del STARTS[:]
    name = c["sampler"]
    N, Nb = max(c["N"], 2), c["Nb"]
    adapt = c["M"] % 2 == 1 and name in ("MH", "CWMH", "pCN")
    if adapt:
        N += 10  # sample_adapt adapts every int(0.1*N) iterations: needs N >= 10
    tags = {"sampler": name, "burnin": Nb > 0, "adapt": adapt}
    if rec.classify(tags, Nb > 0):
        return
    try:
        log = []
        class ChainLog(list):
            """a callable record: an empty list is falsy, yet it is a callback like any other"""
            def __call__(self, sample, idx):
                log.append((idx, np.array(sample, dtype=float).reshape(-1).copy()))
        cb = ChainLog() if c["seed"] % 2 else (lambda sample, idx: log.append((idx, np.array(sample, dtype=float).reshape(-1).copy())))
        np.random.seed(c["seed"])
        s = must(lambda: make_leg(c, cb), f"constructing legacy {name}")
        x0 = np.array(s.x0, dtype=float).copy()
        run = (lambda smp, a, b: smp.sample_adapt(a, b)) if adapt else (lambda smp, a, b: smp.sample(a, b))
        S = must(lambda: run(s, N, Nb), "sample")
        X = np.array(S.samples, dtype=float)
        require(X.shape[1] == N, "the returned chain does not have the requested length", got=X.shape[1], requested=N)
        # callback: once per transition, with the state and its index in the chain of N+Nb states
        T = N + Nb - 1
        require(len(log) == T, f"legacy {name}{' (sample_adapt)' if adapt else ''}: the callback was not invoked exactly once per transition",
                calls=len(log), transitions=T)
        require([i for i, _ in log] == list(range(1, T + 1)), "callback indices are not the positions in the chain", indices=[i for i, _ in log][:8])
        # the full chain from the same stream without burn-in
        if not adapt:
            np.random.seed(c["seed"])
            s2 = make_leg(c)
            Xfull = np.array(s2.sample(N + Nb, 0).samples, dtype=float)
            require(maxdiff(Xfull[:, 0], x0) == 0, f"legacy {name}: the chain does not begin with the initial point", first=Xfull[:, 0], x0=x0)
            require(maxdiff(X, Xfull[:, Nb:]) == 0, f"legacy {name}: sample(N, Nb) is not the last N states of the chain of N+Nb states")
            for i, smp in log:
                require(maxdiff(Xfull[:, i], smp) == 0, f"legacy {name}: a stored chain entry differs from the state handed to the callback "
                        "(entry altered by a later transition)", index=i, stored=Xfull[:, i], callback=smp)
        else:
            for i, smp in log:
                if i >= Nb:
                    require(maxdiff(X[:, i - Nb], smp) == 0, f"legacy {name} (sample_adapt): stored chain entry differs from the callback state", index=i)
            if Nb == 0:
                require(maxdiff(X[:, 0], x0) == 0, f"legacy {name} (sample_adapt): the chain does not begin with the initial point")
        starts_unaltered()
    finally:
        del STARTS[:]
        np.random.seed()


# ----------------------------------------------------------------------------- Gibbs samplers

@st.composite
def gibbs_cases(draw, tier="quick"):
    c = draw(base_case(["HybridGibbs", "Gibbs"], tier))
    c["N"] = draw(st.integers(1, 8))  # a zero-length first run leaves the legacy Gibbs sampler without a last state (IndexError): refusal
    c["M"] = draw(st.integers(0, 6))
    # the latent block advanced by several Metropolis transitions per sweep (accepted and rejected ones mix within a sweep)
    c["mh_x"] = draw(st.sampled_from([False, True]))
    return c


def gibbs_joint(c):
    import cuqi
    D = cuqi.distribution
    n, m = c["n"], c["m"]
    Am = A(c["A"])[:m, :n]
    d = D.Gamma(1.0, 0.5, name="d")
    l = D.Gamma(1.5, 0.8, name="l")
    x = D.Gaussian(np.zeros(n), cov=lambda d: 1.0 / d, name="x")
    y = D.Gaussian(cuqi.model.LinearModel(Am)(x), cov=lambda l: 1.0 / l, name="y")
    return D.JointDistribution(y, x, d, l)(y=A(c["data"])[:m])


def run_gibbs(c, rec):
    import cuqi
    name = c["sampler"]
    N, M, Nb = c["N"], c["M"], c["Nb"]
    if rec.classify({"sampler": name, "warmup": Nb > 0, "mh_x": bool(c.get("mh_x")) and name == "HybridGibbs"}, N > 0 and M > 0):
        return
    try:
        def mk():
            J = gibbs_joint(c)
            if name == "HybridGibbs":
                E = cuqi.experimental.mcmc
                if c.get("mh_x"):
                    return E.HybridGibbs(J, {"x": E.MH(scale=0.4), "d": E.Conjugate(), "l": E.Conjugate()}, num_sampling_steps={"x": 3, "d": 1, "l": 1})
                return E.HybridGibbs(J, {"x": E.LinearRTO(), "d": E.Conjugate(), "l": E.Conjugate()})
            L = cuqi.sampler
            return L.Gibbs(J, {"x": L.LinearRTO, ("d", "l"): L.Conjugate})
        np.random.seed(c["seed"])
        gA = must(mk, f"constructing {name}")
        if name == "HybridGibbs":
            if Nb:
                gA.warmup(Nb)
            gA.sample(N + M)
            SA = gA.get_samples()
        else:
            SA = gA.sample(N + M, Nb)
        np.random.seed(c["seed"])
        gB = mk()
        if name == "HybridGibbs":
            if Nb:
                gB.warmup(Nb)
            gB.sample(N)
            gB.sample(M)
            SB = gB.get_samples()
        else:
            S1 = gB.sample(N, Nb)
            first = {k: np.array(S1[k].samples, dtype=float).copy() for k in ("x", "d", "l")}
            SB = gB.sample(M)
            # what the first call handed out must not be altered by the continuation (stored entries are never altered afterwards)
            for k in first:
                require(np.asarray(S1[k].samples).shape == first[k].shape and maxdiff(np.asarray(S1[k].samples, dtype=float), first[k]) == 0,
                        f"{name}: the chain returned by the first sample() call was altered by the next call (block '{k}')",
                        before=first[k], after=np.asarray(S1[k].samples, dtype=float))
        # recording: run sweep by sweep and compare what the sampler holds after each sweep with the finally stored chain
        np.random.seed(c["seed"])
        gC = mk()
        seen = {k: [] for k in ("x", "d", "l")}
        if name == "HybridGibbs":
            if Nb:
                gC.warmup(Nb)
            for _ in range(N + M):
                gC.sample(1)
                for k in seen:
                    seen[k].append(np.array(gC.current_samples[k], dtype=float).reshape(-1).copy())
                    # the recorded value of a block is the state its sampler is in after the sweep
                    held = np.array(gC.samplers[k].current_point, dtype=float).reshape(-1)
                    require(maxdiff(held, seen[k][-1]) == 0, f"{name}: after a sweep the recorded value of block '{k}' is not the state of the "
                            "block's sampler (the chain and its record have separated)", recorded=seen[k][-1], sampler_state=held)
            SC = gC.get_samples()
            off = Nb
        else:
            SC = gC.sample(1, Nb) if N + M > 0 else None
            for i in range(N + M):
                if i > 0:
                    SC = gC.sample(1)
                for k in seen:
                    seen[k].append(np.array(SC[k].samples, dtype=float)[:, -1].copy())
            off = 0
        if N + M > 0:
            for k in seen:
                XC = np.asarray(SC[k].samples, dtype=float)
                XC = XC.reshape(-1, XC.shape[-1])
                for i, v in enumerate(seen[k]):
                    require(maxdiff(XC[:, off + i], v) == 0, f"{name}: stored entry {i} of block '{k}' is not the value held after sweep {i}")
                require(maxdiff(XC, np.asarray(SA[k].samples, dtype=float).reshape(XC.shape)) == 0, f"{name}: sweep-by-sweep run differs from a single run")
        expect = (Nb if name == "HybridGibbs" else 0) + N + M
        for k in ("x", "d", "l"):
            XA, XB = np.asarray(SA[k].samples, dtype=float), np.asarray(SB[k].samples, dtype=float)
            require(XA.shape[-1] == expect or (expect == 0 and XA.size == 0), f"{name}: chain of '{k}' does not have the requested length", got=XA.shape, want=expect)
            require(XA.shape == XB.shape and maxdiff(XA, XB) == 0, f"{name}: sample(N) then sample(M) differs from sample(N+M) for block '{k}'")
    finally:
        np.random.seed()


# ----------------------------------------------------------------------------- burn-in / thinning of a recorded chain

@st.composite
def burnthin_cases(draw, tier="quick"):
    gk = draw(st.sampled_from(["image", "cont2d", "cont1d", "step", "default", "mapped_image"]))
    if gk in ("image", "cont2d", "mapped_image"):
        geom = {"kind": "image" if gk != "cont2d" else "cont2d", "shape": [draw(st.integers(2, 4)), draw(st.integers(2, 4))]}
        if gk == "mapped_image":
            geom = {"kind": "mapped", "base": geom, "map": "exp", "imap": True}
    else:
        geom = draw(gen.geom1d_spec(draw(st.integers(2, 5)), [gk]))
    return {"geom": geom, "N": draw(st.integers(1, 20)), "Nw": draw(st.sampled_from([0, 0, 4])),
            "Nb": draw(st.integers(0, 22)), "Nt": draw(st.integers(1, 7)), "seed": draw(st.integers(0, 10 ** 6)),
            "interface": draw(st.sampled_from(["experimental", "legacy"]))}


def run_burnthin(c, rec):
    import cuqi
    geom = gen.make_geometry(c["geom"])
    n = gen.geom_par_dim(c["geom"])
    N, Nb, Nt = c["N"], c["Nb"], c["Nt"]
    tags = {"geometry": gen.geom_kind(c["geom"]).split("(")[0], "interface": c["interface"], "burn": "0" if Nb == 0 else "<N" if Nb < N else ">=N",
            "thin": Nt > 1}
    if rec.classify(tags, 0 < Nb < N or Nt > 1):
        return
    try:
        np.random.seed(c["seed"])
        target = cuqi.distribution.Gaussian(np.zeros(n), 1.0, geometry=geom)
        states = []
        if c["interface"] == "experimental":
            smp = cuqi.experimental.mcmc.MH(target, scale=0.8, callback=lambda sample, i: states.append(np.array(sample, dtype=float).reshape(-1).copy()))
            smp.warmup(c["Nw"]).sample(N)
            S = smp.get_samples()
            want = np.column_stack(states) if states else np.zeros((n, 0))
            require(maxdiff(S.samples, want) == 0 if states else True, "harness: stored chain vs callback states")
        else:
            N = max(N, 2)   # (a single legacy sample is handed out as a bare array)
            S = cuqi.sampler.MH(target, scale=0.8, x0=np.zeros(n)).sample(N, 0)
        X = np.array(S.samples, dtype=float).copy()
        require(X.shape[1] >= N, "harness: chain shorter than requested")
        keep = list(range(X.shape[1]))[Nb::Nt]
        views = [("parameters", lambda q: q), ("function values", lambda q: q.funvals), ("vectorised function values", lambda q: q.funvals.vector)]
        for label, view in views:
            refused, V = refuses(lambda: view(S))
            if refused:
                rec.count("view_refused:" + label)
                continue
            full = np.array(V.samples, dtype=float).copy()
            if Nb >= full.shape[-1]:
                refused, out = refuses(lambda: V.burnthin(Nb, Nt))
                require(refused or out.Ns == 0, f"burn-in of the whole chain ({label}) returned states", Ns=None if refused else out.Ns)
                continue
            out = must(lambda: V.burnthin(Nb, Nt), f"burnthin on {label}")
            got = np.array(out.samples, dtype=float)
            require(out.Ns == len(keep) and got.shape == full[..., keep].shape,
                    f"burnthin({Nb},{Nt}) of the chain held as {label} does not have the states Nb, Nb+Nt, ... of the chain",
                    got_shape=got.shape, want_shape=full[..., keep].shape)
            require(maxdiff(got, full[..., keep]) == 0, f"burnthin({Nb},{Nt}) of the chain held as {label}: the kept states are not states Nb, Nb+Nt, ... in order")
            require(maxdiff(np.array(V.samples, dtype=float), full) == 0, "burnthin altered the chain it was applied to")
            require(out.geometry == V.geometry, "burnthin changed the geometry of the chain")
        require(maxdiff(np.array(S.samples, dtype=float), X) == 0, "burnthin altered the recorded chain")
    finally:
        np.random.seed()


SUBCHECKS = [
    SubCheck("C14/experimental", run_exp, strategy=lambda tier: base_case(EXP, tier), n={"quick": 1200, "thorough": 20000},
             shards={"quick": 12, "thorough": 16}, shrink=False),
    SubCheck("C14/legacy", run_leg, strategy=lambda tier: base_case(LEG, tier), n={"quick": 800, "thorough": 12000},
             shards={"quick": 8, "thorough": 16}, shrink=False),
    SubCheck("C14/burnthin", run_burnthin, strategy=burnthin_cases, n={"quick": 400, "thorough": 8000}, shards={"quick": 4, "thorough": 16}),
    SubCheck("C14/gibbs", run_gibbs, strategy=gibbs_cases, n={"quick": 160, "thorough": 2500}, shards={"quick": 8, "thorough": 16}, shrink=False),
]
