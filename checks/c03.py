"""C03 - every gradient equals the derivative of the log-density, or is refused."""
import numpy as np
from hypothesis import strategies as st

from vlib.core import SubCheck, Violation, require, close, maxdiff, A, must, refuses
from vlib import gen, dists
from checks import c04, c12, c20

PROPERTY = "C03"
RULE = ("Hypothesis draws distributions of every family and parameterisation (non-zero location/mean, scalar vs vector "
        "parameters, all Gaussian forms, MRFs over bc/order/1D-2D, user-defined and gallery densities), likelihoods of "
        "Gaussian/Lognormal data distributions over generated forward models (matrix, function+adjoint, Jacobian, "
        "direction-Jacobian, PDE-based) and domain geometries, posteriors and multiple-likelihood posteriors built from "
        "them, and evaluation points inside and outside the support. Oracle: central differences with one Richardson step of "
        "the same object's logd. Non-trivial: non-zero gradient and a non-default parameter/model/geometry; distinct = "
        "distinct generated case.")
ASSUMPTIONS = ["allowed outcomes: vector equal to the derivative within tolerance, an exception (refusal), a non-finite vector outside "
               "the support; a returned None (warning branches) is recorded, not judged",
               "tolerance 1e-5*max(1,|g|) + 10*error-estimate for analytic gradients; 2e-4 relative for the library's own forward-difference option"]


def num_grad(f, x, h0=1e-4):
    """central differences with one Richardson step; returns (gradient, error estimate)"""
    x = np.asarray(x, dtype=float)
    g = np.zeros(x.size)
    err = np.zeros(x.size)
    for i in range(x.size):
        h = h0 * max(1.0, abs(x[i]))
        e = np.zeros(x.size)
        e[i] = 1.0
        d1 = (f(x + h * e) - f(x - h * e)) / (2 * h)
        d2 = (f(x + h / 2 * e) - f(x - h / 2 * e)) / h
        g[i] = (4 * d2 - d1) / 3
        err[i] = abs(d2 - d1)
    return g, err


def scalar(v):
    return float(np.asarray(v, dtype=float).reshape(-1)[0])


def judge(obj_name, grad_fn, logd_fn, x, rec, tol_rel=1e-5, fd=False):
    """apply the property at one interior point; returns a class label"""
    refused, g = refuses(lambda: grad_fn(x.copy()))
    if refused:
        rec.count("refused")
        return "refused"
    if g is None:
        rec.count("returned_none")
        return "none"
    g = np.asarray(g, dtype=float).reshape(-1)
    try:
        with np.errstate(all="ignore"):
            want, err = num_grad(lambda z: scalar(logd_fn(z)), x)
    except Violation:
        raise
    except Exception:
        rec.inconc("own_logd_raises")
        return "inconclusive"
    if not np.all(np.isfinite(want)):
        rec.inconc("numerical_derivative_not_finite")
        return "inconclusive"
    require(g.shape == want.shape, f"{obj_name}: gradient has wrong size", got=g.shape, want=want.shape)
    scale = max(1.0, np.max(np.abs(want)))
    tol = (2e-4 * scale + 1e-6 * abs(scalar(logd_fn(x)))) if fd else tol_rel * scale
    tol = tol + 10 * float(np.max(err))
    if float(np.max(err)) > 1e-3 * scale:
        rec.inconc("derivative_error_estimate_too_large")
        return "inconclusive"
    require(np.all(np.isfinite(g)) and float(np.max(np.abs(g - want))) <= tol,
            f"{obj_name}: gradient differs from the derivative of its own log-density (max err {float(np.max(np.abs(g - want))):.3g})",
            got=g, want=want, x=x)
    # the caller's buffer re-used: the same array object overwritten in place between two calls (finite-difference loops,
    # optimisers) must give the gradient at its current content
    buf = x.copy()
    refuses(lambda: grad_fn(buf))
    x2 = x * (1 + 1e-3) + 1e-3
    buf[:] = x2
    r1, g_buf = refuses(lambda: grad_fn(buf))
    r2, g_new = refuses(lambda: grad_fn(x2.copy()))
    if not r1 and not r2 and g_buf is not None and g_new is not None:
        a, b = np.asarray(g_buf, dtype=float).reshape(-1), np.asarray(g_new, dtype=float).reshape(-1)
        same = a.shape == b.shape and np.all((a == b) | (np.isnan(a) & np.isnan(b)) | (np.abs(a - b) <= 1e-12 * (1 + np.abs(b))))
        require(bool(same), f"{obj_name}: the gradient evaluated on a buffer that was overwritten in place is not the gradient at the "
                "buffer's current content", on_buffer=a, on_fresh_copy=b)
    return "checked"


# ----------------------------------------------------------------------------- families

def run_family(c, rec):
    import cuqi
    fam, mode, n = c["fam"], c["mode"], c["dim"]
    tags = {"fam": fam, "mode": mode, "multi": n > 1}
    if rec.classify(tags, True):
        return
    spec = dict(c, mode="vector") if mode == "callable" else c
    refused, built = refuses(lambda: dists.build(spec))
    if refused:
        rec.count("construction_refused")
        return
    d, ref = built
    x = ref.inside(c["raw"])
    if fam == "Laplace":  # keep clear of the kink at the location (the log-density is not differentiable there)
        loc = dists._fullv(c, "location")
        x = loc + np.where(x - loc >= 0, 1.0, -1.0) * (np.abs(x - loc) + 0.05)
    res = judge(fam, d.gradient, d.logd, x, rec)
    rec.count(f"{fam}:{res}")
    # outside the support: a finite vector is a violation
    xo = ref.outside(c["raw"])
    if xo is not None and fam not in ("Lognormal",):
        with np.errstate(all="ignore"):
            refused, g = refuses(lambda: d.gradient(xo.copy()))
        if not refused and g is not None:
            g = np.asarray(g, dtype=float)
            require(not np.all(np.isfinite(g)), f"{fam}: gradient outside the support is a finite vector", x=xo, got=g)
    # finite-difference option gives the derivative of the same log-density
    d2, _ = dists.build(spec)
    refused, _ = refuses(lambda: d2.enable_FD())
    if not refused:
        res = judge(fam + "[FD]", d2.gradient, d2.logd, x, rec, fd=True)
        logd_ok = not refuses(lambda: d2.logd(x.copy()))[0]
        require(res != "refused" or not logd_ok, f"{fam}: gradient still refused after enable_FD()")
        if len(x) == 1 and res == "checked":
            # a one-dimensional density evaluated at a plain scalar instead of a one-element array
            xs = float(x[0])
            refused, gs = refuses(lambda: d2.gradient(xs))
            if not refused and gs is not None:
                ga = np.asarray(d2.gradient(x.copy()), dtype=float).reshape(-1)
                gs = np.asarray(gs, dtype=float).reshape(-1)
                require(gs.size == 1 and abs(gs[0] - ga[0]) <= 1e-4 * max(1.0, abs(ga[0])),
                        f"{fam}: with the finite-difference option the gradient at a scalar point differs from the gradient at the same point given as an array",
                        scalar_point=gs, array_point=ga, x=xs)
        d2.disable_FD()


def run_gallery(c, rec):
    import cuqi
    if rec.classify({"gallery": c["name"]}, True):
        return
    d = cuqi.distribution.DistributionGallery(c["name"])
    x = A(c["x"])
    if np.linalg.norm(x) < 0.1:  # CalSom91 / donut have a cusp at the origin
        x = x + 0.2
    judge("DistributionGallery(" + c["name"] + ")", d.gradient, d.logd, x, rec)
    a = A(c["a"])
    u = cuqi.distribution.UserDefinedDistribution(dim=2, logpdf_func=lambda z: float(-0.5 * np.sum((z - a) ** 2) - 0.25 * np.sum(z ** 4)),
                                                  gradient_func=lambda z: -(z - a) - z ** 3)
    judge("UserDefinedDistribution", u.gradient, u.logd, x, rec)
    u2 = cuqi.distribution.UserDefinedDistribution(dim=2, logpdf_func=lambda z: float(-0.5 * np.sum((z - a) ** 2)))
    refused, g = refuses(lambda: u2.gradient(x))
    require(refused, "UserDefinedDistribution without gradient_func returned a gradient")
    u2.enable_FD()
    judge("UserDefinedDistribution[FD]", u2.gradient, u2.logd, x, rec, fd=True)


@st.composite
def gallery_cases(draw, tier="quick"):
    return {"name": draw(st.sampled_from(["CalSom91", "BivariateGaussian", "funnel", "mixture", "squiggle", "donut", "banana"])),
            "x": draw(gen.vec(2, -2, 2)), "a": draw(gen.vec(2, -1, 1))}


# ----------------------------------------------------------------------------- Gaussian forms and MRFs

def run_gauss(c, rec):
    import cuqi
    tags = c04.gauss_tags(c)
    tags["mean"] = c["mean_kind"]
    if rec.classify(tags, c["mean_kind"] != "zero" or c["structure"] != "scalar"):
        return
    n = c["n"]
    mean = {"zero": 0.0, "scalar": float(c["mean"][0]), "vector": A(c["mean"])}[c["mean_kind"]]
    old = cuqi.config.MIN_DIM_SPARSE
    try:
        if c["sparse_switch"] == "above":
            cuqi.config.MIN_DIM_SPARSE = 1
        kw = {c["param"]: c04.gauss_arg(c)}
        if c["mean_kind"] != "vector":
            kw["geometry"] = n
        refused, d = refuses(lambda: cuqi.distribution.Gaussian(mean, **kw))
        if refused:
            rec.count("construction_refused")
            return
        x = A(c["x"])
        refused, _ = refuses(lambda: d.logd(x))
        logd = d.logd if not refused else (lambda z: d._logupdf(z))
        judge("Gaussian", d.gradient, logd, x, rec)
    finally:
        cuqi.config.MIN_DIM_SPARSE = old


def run_mrf(c, rec):
    import cuqi
    n, bc, pd = c["n"], c["bc"], c["pd"]
    fam = c.get("fam", "GMRF")
    order = c.get("order", 1)
    loc = c.get("loc", c.get("mean"))
    tags = {"fam": fam, "pd": pd, "bc": bc, "order": order, "loc": "vector" if isinstance(loc, list) else ("zero" if loc == 0 else "scalar")}
    if rec.classify(tags, tags["loc"] != "zero"):
        return
    dim = n if pd == 1 else n * n
    locv = A(loc) if isinstance(loc, list) else loc
    geom = c20.make_geom(pd, n)
    if fam == "GMRF":
        c20.decoy_other_layout(c.get("pd", 1), c.get("n", 0), bc, order)
        d = cuqi.distribution.GMRF(locv, c["prec"], bc_type=bc, order=order, geometry=geom)
    else:
        d = getattr(cuqi.distribution, fam)(locv, c["scale"], bc_type=bc, geometry=geom)
    x = A(c["x"])
    mu = np.broadcast_to(np.asarray(locv, dtype=float), (dim,)).copy()
    base = scalar(d.logd(mu))
    if not np.isfinite(base):
        # (only the recorded GMRF neumann / order 2 rank finding makes the log-density at the location non-finite)
        require(fam == "GMRF" and bc == "neumann" and order == 2, f"{fam}(bc={bc}, order={order}, {dim} nodes): the log-density at the "
                "location is not finite, so no gradient can be the derivative of this object's log-density", logd=base)
        rec.inconc("own_logd_not_finite")
        return
    bx = scalar(d.logd(x))
    require(np.isfinite(bx) or (fam == "GMRF" and bc == "neumann" and order == 2), f"{fam}(bc={bc}, order={order}, {dim} nodes): the log-density "
            "at an ordinary field is not finite", logd=bx)
    judge(f"{fam}(bc={bc}, order={order})", d.gradient, d.logd, x, rec)
    # fields on a large base line: with periodic / Neumann boundary conditions the density depends on differences only, so its
    # gradient cannot change when a constant is added to the field (finite differences of the log-density are useless at such
    # offsets, the invariance is exact)
    if bc in ("periodic", "neumann") and (fam != "GMRF" or order >= 1) and fam in ("GMRF", "CMRF"):
        r0, g0 = refuses(lambda: d.gradient(x.copy()))
        if not r0 and g0 is not None and np.all(np.isfinite(np.asarray(g0, dtype=float))):
            g0 = np.asarray(g0, dtype=float).reshape(-1)
            strength = float(c["prec"]) if fam == "GMRF" else 1.0 / float(c["scale"]) ** 2
            for off in (2.0e4, 1.0e6):
                r1, g1 = refuses(lambda: d.gradient(x + off))
                require(not r1 and g1 is not None, f"{fam}(bc={bc}, order={order}): gradient refused for a field on a large base line", offset=off)
                g1 = np.asarray(g1, dtype=float).reshape(-1)
                tol = 1e-9 * np.max(np.abs(g0)) + 64 * np.finfo(float).eps * off * strength * 16
                require(float(np.max(np.abs(g1 - g0))) <= tol, f"{fam}(bc={bc}, order={order}): the gradient changes when a constant is added to "
                        "the field although the log-density depends on differences only", offset=off, change=float(np.max(np.abs(g1 - g0))), tol=tol)
            rec.count("translation_invariance_checked")


@st.composite
def mrf_cases(draw, tier="quick"):
    if draw(st.booleans()):
        return draw(c20.gmrf_cases(tier))
    return draw(c20.lc_cases(tier))


# ----------------------------------------------------------------------------- likelihoods / posteriors

@st.composite
def post_cases(draw, tier="quick"):
    mc = draw(c12.model_cases(tier))
    # range geometry: identity-like, or an expansion (the gradient must then be refused: its chain rule is not implemented);
    # the generated domain geometry is kept
    if mc["ran"]["kind"] not in ("default", "cont1d", "discrete", "kl", "step"):
        mc["ran"] = {"kind": "cont1d", "fun_dim": int(np.prod(c12.fun_shape(mc["ran"]))), "x0": 0.0, "h": 1.0}
    m = c12.par_dim(mc["ran"])
    n = c12.par_dim(mc["dom"])
    return {"model": mc,
            "noise": draw(st.sampled_from(["cov_scalar", "cov_vector", "cov_matrix", "prec_vector", "sqrtprec_matrix", "sqrtcov_scalar", "lognormal"])),
            "nvar": draw(st.lists(gen.logpos(-1, 0.5), min_size=m, max_size=m)), "NG": draw(gen.mat(m, m, -0.5, 0.5)),
            "data": draw(gen.vec(m, -2, 2)),
            "prior": draw(st.sampled_from(["gauss_scalar", "gauss_vecmean", "gauss_matrix", "gmrf", "cauchy", "none"])),
            "pmean": draw(gen.vec(n, -1, 1)), "pvar": draw(st.lists(gen.logpos(-1, 0.5), min_size=n, max_size=n)),
            "PG": draw(gen.mat(n, n, -0.5, 0.5)),
            "second": draw(st.sampled_from([False, True, "user"])), "data2": draw(gen.vec(m, -2, 2)),
            "x": draw(gen.vec(n, -1, 1)), "fd": draw(st.booleans()), "sparse_mutated": draw(st.booleans())}


def build_post(c):
    import cuqi
    mc = c["model"]
    model, dom, ran, F = c12.build(mc)
    mutate = None
    if mc["kind"] == "lin_matrix" and c.get("sparse_mutated"):
        # the model is built on the user's sparse matrix, which the user then updates in place (re-calibration): from then on
        # log-density AND gradient belong to the matrix as it is now
        import scipy.sparse as sp
        Bs = sp.csr_matrix(A(mc["B"]) / 1.7)
        model = cuqi.model.LinearModel(Bs, range_geometry=ran, domain_geometry=dom)

        def mutate():
            Bs.data *= 1.7
    m, n = c12.par_dim(mc["ran"]), c12.par_dim(mc["dom"])
    nv = A(c["nvar"])
    S = gen.spd_from(c["NG"], 0.0) + np.diag(nv)
    kind = c["noise"]

    def data_dist(name, mdl):
        if kind == "cov_scalar":
            return cuqi.distribution.Gaussian(mdl, cov=float(nv[0]), name=name)
        if kind == "cov_vector":
            return cuqi.distribution.Gaussian(mdl, cov=nv.copy(), name=name)
        if kind == "cov_matrix":
            return cuqi.distribution.Gaussian(mdl, cov=S.copy(), name=name)
        if kind == "prec_vector":
            return cuqi.distribution.Gaussian(mdl, prec=1 / nv, name=name)
        if kind == "sqrtprec_matrix":
            return cuqi.distribution.Gaussian(mdl, sqrtprec=np.linalg.cholesky(np.linalg.inv(S)).T, name=name)
        if kind == "sqrtcov_scalar":
            return cuqi.distribution.Gaussian(mdl, sqrtcov=float(np.sqrt(nv[0])), name=name)
        return cuqi.distribution.Lognormal(mdl, S.copy(), name=name)
    argname = cuqi.utilities.get_non_default_args(model)[0]
    data = A(c["data"]) if kind != "lognormal" else np.exp(A(c["data"]))
    y = data_dist("y", model)
    L = y.to_likelihood(data)
    pk = c["prior"]
    pm = A(c["pmean"])
    geom = dom
    if pk == "none":
        prior = None
    elif pk == "gauss_scalar":
        prior = cuqi.distribution.Gaussian(np.zeros(n), float(c["pvar"][0]), geometry=geom, name=argname)
    elif pk == "gauss_vecmean":
        prior = cuqi.distribution.Gaussian(pm, A(c["pvar"]), geometry=geom, name=argname)
    elif pk == "gauss_matrix":
        prior = cuqi.distribution.Gaussian(pm, gen.spd_from(c["PG"], 0.0) + np.diag(A(c["pvar"])), geometry=geom, name=argname)
    elif pk == "gmrf":
        if n < 2 or len(c12.fun_shape(mc["dom"])) != 1 or c12.par_dim(mc["dom"]) != c12.fun_shape(mc["dom"])[0]:
            prior = cuqi.distribution.Gaussian(pm, 1.0, geometry=geom, name=argname)
        else:
            prior = cuqi.distribution.GMRF(pm, float(c["pvar"][0]), geometry=geom, name=argname)
    else:
        prior = cuqi.distribution.Cauchy(pm, A(c["pvar"]), geometry=geom, name=argname)
    objs = {"likelihood": L}
    if prior is not None:
        objs["posterior"] = cuqi.distribution.Posterior(L, prior)
        if c["second"] == "user":
            # a user-defined likelihood (log-density and gradient given as functions) next to a data likelihood
            w = np.cos(1.0 + np.arange(n))
            t0 = float(c["data2"][0])
            # (the parameter name of a user-defined likelihood is the argument name of its functions)
            UL = cuqi.likelihood.UserDefinedLikelihood(
                dim=n, logpdf_func=gen.named_callable([argname], lambda z: float(-0.5 * (w @ np.asarray(z, dtype=float).reshape(-1) - t0) ** 2)),
                gradient_func=gen.named_callable([argname], lambda z: -(w @ np.asarray(z, dtype=float).reshape(-1) - t0) * w),
                geometry=geom, name="u1")
            objs["multi"] = cuqi.distribution.MultipleLikelihoodPosterior(L, UL, prior)
        elif c["second"]:
            y2 = data_dist("y2", model)
            data2 = A(c["data2"]) if kind != "lognormal" else np.exp(A(c["data2"]))
            J = cuqi.distribution.JointDistribution(y, y2, prior)
            objs["multi"] = J(y=data, y2=data2)
    if mutate is not None:
        mutate()
    return objs, argname, dom


def run_post(c, rec):
    import cuqi
    mc = c["model"]
    tags = dict(c12.tags_of(mc), noise=c["noise"], prior=c["prior"], second=str(c["second"]))
    nontrivial = (not c12.identity_like(mc["dom"])) or mc["cc"] > 0 or c["noise"] != "cov_scalar" or c["prior"] not in ("gauss_scalar", "none")
    if rec.classify(tags, nontrivial):
        return
    refused, built = refuses(lambda: build_post(c))
    if refused:
        rec.count("construction_refused:" + type(built).__name__)
        return
    objs, argname, dom_geom = built
    x = A(c["x"])
    for name, obj in objs.items():
        if name == "multi":
            require(type(obj).__name__ == "MultipleLikelihoodPosterior", "harness: expected MultipleLikelihoodPosterior", got=type(obj).__name__)
        res = judge(name, obj.gradient, obj.logd, x, rec)
        rec.count(f"{name}:{res}")
        raw_ = bool(mc.get("raw_ops")) and len(c12.fun_shape(mc["dom"])) == 1 and len(c12.fun_shape(mc["ran"])) == 1
        twin = c12.make_geom(mc["dom"], raw_)
        if res == "checked" and twin == dom_geom:
            # the evaluation point handed over as a geometry-carrying array - parameters or function values - whose geometry is an
            # equal geometry built separately (as after a deep copy of the model): the same gradient
            g_plain = np.asarray(obj.gradient(x.copy()), dtype=float).reshape(-1)
            # (function values only for the likelihood: it is the forward model that understands representations; a prior is a
            # distribution over parameters)
            reps = [("parameters", cuqi.array.CUQIarray(x.copy(), is_par=True, geometry=twin))]
            if name == "likelihood":
                reps.append(("function values", cuqi.array.CUQIarray(c12.ref_par2fun(mc["dom"], x), is_par=False, geometry=twin)))
            for label, arr in reps:
                r_, g_arr = refuses(lambda: obj.gradient(arr))
                if r_ or g_arr is None:
                    rec.count("gradient_refused_for_cuqiarray:" + label)
                    continue
                g_arr = np.asarray(g_arr, dtype=float).reshape(-1)
                require(g_arr.shape == g_plain.shape and float(np.max(np.abs(g_arr - g_plain))) <= 1e-8 * (1 + float(np.max(np.abs(g_plain)))),
                        f"{name}: the gradient at a CUQIarray of {label} (equal geometry built separately) differs from the gradient at the same point "
                        "given as a plain vector", as_array=g_arr, plain=g_plain)
        # (finite differences are judged for identity-like range geometries: the max / min projections of a step expansion in the
        # range make the log-density piecewise smooth with kinks at ties, where a one-sided difference and the derivative differ)
        if c["fd"] and name != "multi" and mc["ran"]["kind"] in ("default", "cont1d", "discrete"):
            refused, _ = refuses(lambda: obj.enable_FD())
            if not refused:
                res2 = judge(name + "[FD]", obj.gradient, obj.logd, x, rec, fd=True)
                require(res2 != "refused", f"{name}: gradient refused although the finite-difference option is on")
                obj.disable_FD()


def run_reassign(c, rec):
    """gradient after parameters were re-assigned on a live object (caches must follow the parameters)"""
    import cuqi
    kind, s1, s2 = c["kind"], c["s1"], c["s2"]
    fam = s1.get("fam", kind)
    tags = {"kind": kind, "fam": fam}
    if kind == "gmrf":
        tags.update(bc=s1["bc"], order=s1["order"])
    if rec.classify(tags, True):
        return
    old = cuqi.config.MIN_DIM_SPARSE
    try:
        if kind == "gaussian" and s1["sparse_switch"] == "above":
            cuqi.config.MIN_DIM_SPARSE = 1
        refused, d1 = refuses(lambda: c04._build_any(kind, s1))
        refused2, d2 = refuses(lambda: c04._build_any(kind, s2))
        if refused or refused2:
            rec.count("construction_refused")
            return
        x = dists.Reference(s2).inside(s2["raw"]) if kind == "family" else A(s2["x"])
        if fam == "Laplace":
            return
        x0 = dists.Reference(s1).inside(s1["raw"]) if kind == "family" else A(s1["x"])
        refuses(lambda: d1.gradient(x0.copy()))  # warm any cache
        refuses(lambda: d1.logd(x0.copy()))
        for name in [v for v in d1.get_mutable_variables() if not v.startswith("_")]:
            refused, _ = refuses(lambda: setattr(d1, name, getattr(d2, name)))
            if refused:
                rec.count("assignment_refused")
                return
        base = refuses(lambda: scalar(d1.logd(x.copy())))
        if base[0] or not np.isfinite(base[1]):
            rec.inconc("own_logd_unavailable")
            return
        res = judge(f"{fam} after re-assigning its parameters", d1.gradient, d1.logd, x, rec)
        rec.count(f"reassign:{res}")
    finally:
        cuqi.config.MIN_DIM_SPARSE = old


SUBCHECKS = [
    SubCheck("C03/families", run_family, strategy=lambda tier: dists.family_spec(max_dim=4), n={"quick": 1200, "thorough": 30000},
             shards={"quick": 4, "thorough": 16}),
    SubCheck("C03/gallery_user", run_gallery, strategy=gallery_cases, n={"quick": 200, "thorough": 3000}, shards={"quick": 2, "thorough": 4}),
    SubCheck("C03/gaussian_forms", run_gauss, strategy=c04.gauss_cases, n={"quick": 800, "thorough": 20000},
             shards={"quick": 4, "thorough": 16}),
    SubCheck("C03/reassign", run_reassign, strategy=c04.reassign_cases, n={"quick": 600, "thorough": 12000}, shards={"quick": 4, "thorough": 16}),
    SubCheck("C03/mrf", run_mrf, strategy=mrf_cases, n={"quick": 600, "thorough": 12000}, shards={"quick": 4, "thorough": 16}),
    SubCheck("C03/likelihood_posterior", run_post, strategy=post_cases, n={"quick": 800, "thorough": 20000},
             shards={"quick": 8, "thorough": 16}),
]
