"""C19 - sample statistics and burn-in/thinning are exact functions of the stored chain."""
import numpy as np
from hypothesis import strategies as st

from vlib.core import SubCheck, Violation, require, close, maxdiff, A, must, refuses
from vlib import gen

PROPERTY = "C19"
RULE = ("Hypothesis draws the raw sample array (parameter samples (dim,N) or function-value samples (a,b,N)), a geometry, "
        "burn-in b in 0..N+1, thinning t in 1..N+3, credibility levels and sequences of burnthin/funvals/vector/parameters "
        "calls interpreted against a numpy model. Non-trivial: b>0 and t>1 with N not a multiple of t, or multi-dimensional "
        "function values, or a sequence of >=2 operations; distinct = distinct generated case.")
ASSUMPTIONS = ["numpy reductions over the last axis are the reference statistics (compared with 1e-12 relative tolerance)",
               "arviz applied to each variable's row separately is the reference for ESS / R-hat"]


@st.composite
def sample_cases(draw, tier="quick"):
    kind = draw(st.sampled_from(["par", "par", "fun2d", "image_par"]))
    N = draw(st.integers(1, 24 if tier == "quick" else 40))
    if kind == "par":
        d = draw(st.integers(1, 6))
        raw = draw(gen.mat(d, N))
        geom = draw(st.sampled_from(["none", "cont1d", "discrete", "mapped_exp", "mapped_exp", "mapped_coupled"]))
        c = {"kind": kind, "raw": raw, "geom": geom,
             # an integer-typed sample array (counts, integer draws)
             "int_raw": draw(st.sampled_from([False, False, True]))}
        if c["int_raw"]:
            c["raw"] = [[float(round(2 * v)) for v in row] for row in raw]
    elif kind == "image_par":
        a, b = draw(st.integers(1, 3)), draw(st.integers(2, 3))
        raw = draw(gen.mat(a * b, N))
        c = {"kind": kind, "raw": raw, "shape": [a, b], "order": draw(st.sampled_from(["C", "F"]))}
    else:
        a, b = draw(st.integers(1, 3)), draw(st.integers(2, 3))
        raw = draw(st.lists(gen.mat(b, N), min_size=a, max_size=a))
        c = {"kind": kind, "raw": raw, "shape": [a, b]}
    c["Nb"] = draw(st.integers(0, N + 1))
    c["Nt"] = draw(st.integers(1, N + 3))
    # memory layout of the sample array handed to Samples (Fortran order, non-contiguous view, negative strides, read-only)
    c["layout"] = draw(st.sampled_from(gen.LAYOUTS))
    # chains on a large base line (2^27 ~ 1.3e8 plus O(1) fluctuations: time stamps, energies): one-pass formulas such as
    # E[x^2] - E[x]^2 lose every digit there, numpy's two-pass statistics do not
    # a chain that moves in tiny steps (a well-mixed sampler with a small proposal scale): consecutive states differ by 1e-7
    c["tiny_steps"] = draw(st.sampled_from([False, False, False, True])) if kind == "par" and not c.get("int_raw") else False
    c["offset"] = draw(st.sampled_from([0.0, 0.0, 0.0, 2.0 ** 27])) if (kind != "par" or (c.get("geom") not in ("mapped_exp", "mapped_coupled") and not c.get("int_raw"))) else 0.0
    c["percent"] = draw(st.sampled_from([95, 50, 99, 68.3, 0, 100, 10]))
    c["ops"] = draw(st.lists(st.one_of(
        st.tuples(st.just("burnthin"), st.integers(0, 6), st.integers(1, 4)),
        st.tuples(st.just("funvals")), st.tuples(st.just("vector")), st.tuples(st.just("parameters"))),
        min_size=0, max_size=6))
    # which earlier object each operation is applied to (0 = the most recent one, k = k steps back): histories branch
    c["targets"] = draw(st.lists(st.integers(0, 3), min_size=len(c["ops"]), max_size=len(c["ops"])))
    return c


def build(c):
    import cuqi
    raw = np.array(c["raw"], dtype=float) + float(c.get("offset", 0.0))
    if c.get("tiny_steps"):
        raw = 1.0 + 1e-7 * raw
    if c["kind"] == "par":
        d = raw.shape[0]
        G = {"none": None, "cont1d": cuqi.geometry.Continuous1D(d), "discrete": cuqi.geometry.Discrete(d),
             "mapped_exp": cuqi.geometry.MappedGeometry(cuqi.geometry.Continuous1D(d), map=lambda v: np.exp(0.3 * v), imap=lambda w: np.log(w) / 0.3),
             # a map that couples the values of one function (it is written for one function at a time)
             "mapped_coupled": cuqi.geometry.MappedGeometry(cuqi.geometry.Continuous1D(d), map=gen.MAPS["unitball"][0], imap=gen.MAPS["unitball"][1])}[c["geom"]]
        arr = raw.astype(int) if c.get("int_raw") else gen.relayout(raw, c.get("layout", "plain"))
        return raw, cuqi.samples.Samples(arr, geometry=G), G
    if c["kind"] == "image_par":
        G = cuqi.geometry.Image2D(tuple(c["shape"]), order=c["order"])
        return raw, cuqi.samples.Samples(gen.relayout(raw, c.get("layout", "plain")), geometry=G), G
    G = cuqi.geometry.Image2D(tuple(c["shape"]))
    return raw, cuqi.samples.Samples(gen.relayout(raw, c.get("layout", "plain")), geometry=G, is_par=False, is_vec=False), G


def tags_of(c):
    return {"kind": c["kind"], "geom": c.get("geom", "image"), "int_raw": bool(c.get("int_raw"))}


def run_burnthin(c, rec):
    import cuqi
    raw, S, G = build(c)
    N = raw.shape[-1]
    b, t = c["Nb"], c["Nt"]
    if rec.classify(tags_of(c), (b > 0 and t > 1 and N % t != 0) or c["kind"] == "fun2d"):
        return
    flags = (S.is_par, S.is_vec)
    if b >= N:
        refused, val = refuses(lambda: S.burnthin(b, t))
        require(refused, "burn-in >= number of samples must be refused", Nb=b, N=N)
        rec.count("refused_burnin")
        return
    R = must(lambda: S.burnthin(b, t), "burnthin")
    want = raw[..., b::t]
    require(R.samples.shape == want.shape and maxdiff(R.samples, want) == 0,
            "burnthin does not return samples b, b+t, b+2t, ...", got=R.samples, want=want, Nb=b, Nt=t)
    require((R.is_par, R.is_vec) == flags, "burnthin changed the representation flags")
    require(R.geometry == S.geometry, "burnthin changed the geometry")
    require(maxdiff(S.samples, raw) == 0 and S.Ns == N, "burnthin altered its source")
    require(R.Ns == len(range(b, N, t)), "Ns of the result is wrong")
    # default thinning
    R1 = S.burnthin(b)
    require(maxdiff(R1.samples, raw[..., b:]) == 0, "burnthin(Nb) with default thinning is not raw[..., Nb:]")
    # joint sample sets: every member
    S2 = cuqi.samples.Samples(raw.copy()[..., ::-1].copy(), geometry=S.geometry, is_par=S.is_par, is_vec=S.is_vec)
    J = cuqi.samples.JointSamples({"u": S, "w": S2})
    JR = must(lambda: J.burnthin(b, t), "JointSamples.burnthin")
    require(set(JR.keys()) == {"u", "w"}, "JointSamples.burnthin lost a member")
    require(maxdiff(JR["u"].samples, want) == 0 and maxdiff(JR["w"].samples, raw[..., ::-1][..., b::t]) == 0,
            "JointSamples.burnthin differs from member-wise burnthin")
    require(maxdiff(J["u"].samples, raw) == 0, "JointSamples.burnthin altered its source")


def run_stats(c, rec):
    raw, S, G = build(c)
    N = raw.shape[-1]
    pct = c["percent"]
    if rec.classify(dict(tags_of(c), pct=pct), N >= 2):
        return
    tol = 1e-12
    require(close(S.mean(), np.mean(raw, axis=-1), tol), "mean is not the per-coordinate mean over the sample axis")
    require(close(S.median(), np.median(raw, axis=-1), tol), "median wrong")
    require(close(S.variance(), np.var(raw, axis=-1), tol), "variance wrong")
    require(close(S.std(), np.std(raw, axis=-1), tol), "std wrong")
    lo, up = must(lambda: S.compute_ci(pct), "compute_ci")
    lb = (100 - pct) / 2
    wlo, wup = np.percentile(raw, [lb, 100 - lb], axis=-1)
    require(close(lo, wlo, tol) and close(up, wup, tol), "credible interval bounds are not the percentiles", lo=lo, want=wlo)
    med = S.median()
    e = 1e-12 * (1 + np.abs(med))
    require(np.all(lo <= med + e) and np.all(med <= up + e), "lower <= median <= upper violated")
    require(close(S.ci_width(pct), wup - wlo, tol), "ci_width is not upper - lower")
    require(maxdiff(S.samples, raw) == 0, "statistics altered the samples")
    # statistics of function-value samples = statistics of the converted samples
    if S.is_par and G is not None:
        F = S.funvals
        conv = np.stack([np.asarray(G.par2fun(raw[:, i].copy())) for i in range(N)], axis=-1)
        require(close(F.mean(), np.mean(conv, axis=-1), tol), "mean of funvals samples != mean of converted samples")
        require(close(F.variance(), np.var(conv, axis=-1), tol), "variance of funvals samples wrong")
        flo, fup = F.compute_ci(pct)
        clo, cup = np.percentile(conv, [lb, 100 - lb], axis=-1)
        require(close(flo, clo, tol) and close(fup, cup, tol), "CI of funvals samples wrong")


def run_history(c, rec):
    """Sequences of burnthin / conversion calls against a numpy model."""
    raw, S, G = build(c)
    ops = c["ops"]
    if rec.classify(dict(tags_of(c), nops=min(len(ops), 3)), len(ops) >= 2):
        return
    if G is None:
        import cuqi
        G = cuqi.geometry._DefaultGeometry1D(raw.shape[0])
    # pool of (Samples object, numpy model (array, is_par, is_vec), snapshot of its array)
    pool = [(S, (raw.copy(), S.is_par, S.is_vec), raw.copy())]
    targets = c.get("targets") or [0] * len(ops)
    for op, back in zip(ops, targets):
        cur, model, _ = pool[max(0, len(pool) - 1 - back)]
        arr, is_par, is_vec = model
        N = arr.shape[-1]
        if op[0] == "burnthin":
            b, t = op[1], op[2]
            if b >= N:
                refused, _ = refuses(lambda: cur.burnthin(b, t))
                require(refused, "burn-in >= Ns must be refused")
                continue
            new = must(lambda: cur.burnthin(b, t), "burnthin")
            model = (arr[..., b::t], is_par, is_vec)
        elif op[0] == "funvals":
            new = must(lambda: cur.funvals, "funvals")
            if is_par:
                conv = np.stack([np.asarray(G.par2fun(arr[:, i].copy())) for i in range(N)], axis=-1)
                model = (conv, False, conv.ndim <= 2)
            elif is_vec:
                conv = np.stack([np.asarray(G.vec2fun(arr[:, i].copy())) for i in range(N)], axis=-1)
                model = (conv, False, conv.ndim <= 2)
        elif op[0] == "vector":
            new = must(lambda: cur.vector, "vector")
            if not (is_vec or is_par):
                conv = np.stack([np.asarray(G.fun2vec(arr[..., i].copy())) for i in range(N)], axis=-1)
                model = (conv, False, True)
        else:
            new = must(lambda: cur.parameters, "parameters")
            if not is_par:
                if is_vec:
                    conv = np.stack([np.asarray(G.fun2par(G.vec2fun(arr[:, i].copy()))) for i in range(N)], axis=-1)
                else:
                    conv = np.stack([np.asarray(G.fun2par(arr[..., i].copy())) for i in range(N)], axis=-1)
                model = (conv, True, True)
        arr, is_par, is_vec = model
        require(np.asarray(new.samples).shape == arr.shape and maxdiff(new.samples, arr) <= 1e-12,
                f"after {op} (applied {back} objects back): samples differ from the numpy model", got=new.samples, want=arr)
        require(bool(new.is_par) == is_par, f"after {op}: is_par flag wrong")
        if is_par or arr.ndim <= 2:
            require(bool(new.is_vec) == (True if is_par else is_vec), f"after {op}: is_vec flag wrong")
        require(new.geometry == G, f"after {op}: geometry changed")
        require(close(new.mean(), np.mean(arr, axis=-1), 1e-12), f"after {op}: mean is not the mean of the model chain")
        pool.append((new, model, np.array(new.samples, dtype=float).copy()))
        for obj, _, snap in pool:
            require(maxdiff(obj.samples, snap) == 0, f"after {op}: an earlier Samples object was altered")


@st.composite
def ess_cases(draw, tier="quick"):
    d = draw(st.integers(2, 12))
    N = draw(st.integers(12, 40))
    # rows with deliberately different autocorrelation: AR(1) with row-specific coefficient driven by generated noise
    noise = draw(gen.mat(d, N, -1, 1))
    phis = draw(st.lists(st.sampled_from([-0.5, 0.0, 0.3, 0.6, 0.9, 0.95]), min_size=d, max_size=d))
    nchains = draw(st.integers(1, 3))
    noise2 = [draw(gen.mat(d, N, -1, 1)) for _ in range(nchains)]
    geom = draw(st.sampled_from(["none", "cont1d", "discrete_names"]))
    return {"noise": noise, "phis": phis, "others": noise2, "geom": geom}


def ar(noise, phis):
    noise = np.array(noise, dtype=float)
    out = np.zeros_like(noise)
    for r in range(noise.shape[0]):
        x = 0.0
        for i in range(noise.shape[1]):
            x = phis[r] * x + noise[r, i] + 0.01 * (r + 1)
            out[r, i] = x
    return out


def _scalar(v):
    if hasattr(v, "data_vars"):
        v = list(v.data_vars.values())[0]
    return float(np.asarray(v).reshape(-1)[0])


def run_ess(c, rec):
    import cuqi
    import arviz
    X = ar(c["noise"], c["phis"])
    d, N = X.shape
    if rec.classify({"geom": c["geom"], "d>10": d > 10}, len(set(c["phis"])) > 1):
        return
    if c["geom"] == "none":
        G = None
    elif c["geom"] == "cont1d":
        G = cuqi.geometry.Continuous1D(d)
    else:
        G = cuqi.geometry.Discrete([f"name{(7 * i) % d}_{i}" for i in range(d)])
    S = cuqi.samples.Samples(X.copy(), geometry=G)
    ess = must(lambda: S.compute_ess(), "compute_ess")
    want = np.array([_scalar(arviz.ess(X[i][None, :])) for i in range(d)])
    require(np.asarray(ess).shape == (d,) and close(ess, want, 1e-9),
            "compute_ess differs from arviz.ess applied to each variable's chain in order", got=ess, want=want)
    chains = [cuqi.samples.Samples(ar(o, c["phis"][::-1]), geometry=G) for o in c["others"]]
    rhat = must(lambda: S.compute_rhat(chains), "compute_rhat")
    wantr = []
    for i in range(d):
        arr = np.stack([X[i]] + [ch.samples[i] for ch in chains], axis=0)
        wantr.append(_scalar(arviz.rhat(arr)))
    require(close(rhat, np.array(wantr), 1e-9), "compute_rhat differs from arviz.rhat per variable in order",
            got=rhat, want=wantr)
    # the variable -> chain mapping handed to arviz
    dd = S.to_arviz_inferencedata()
    require(len(dd) == d, "to_arviz_inferencedata lost variables")
    for i, (k, v) in enumerate(dd.items()):
        require(maxdiff(v, X[i]) == 0, "to_arviz_inferencedata permuted the chains")
    idx = list(range(d))[::2]
    dd2 = S.to_arviz_inferencedata(idx)
    for j, (k, v) in zip(idx, dd2.items()):
        require(maxdiff(v, X[j]) == 0, "to_arviz_inferencedata(variable_indices) selects the wrong rows")
        require(k == S.geometry.variables[j], "variable name does not belong to its chain")


SUBCHECKS = [
    SubCheck("C19/burnthin", run_burnthin, strategy=sample_cases, n={"quick": 1500, "thorough": 40000},
             shards={"quick": 4, "thorough": 16}),
    SubCheck("C19/stats", run_stats, strategy=sample_cases, n={"quick": 1000, "thorough": 20000},
             shards={"quick": 4, "thorough": 16}),
    SubCheck("C19/history", run_history, strategy=sample_cases, n={"quick": 1000, "thorough": 30000},
             shards={"quick": 4, "thorough": 16}),
    SubCheck("C19/ess_rhat", run_ess, strategy=ess_cases, n={"quick": 120, "thorough": 2000},
             shards={"quick": 4, "thorough": 16}),
]
